#!/usr/bin/env python3
"""tools/splice_design.py -- (re)generates section 11 of DESIGN.md from notes/design_section11.md and the
tables of tools/status_table.py. Idempotent: an existing section 11 is replaced."""
import subprocess
d = open('/verif/DESIGN.md').read()
sec = open('/verif/notes/design_section11.md').read()
st = subprocess.run(['python3', '/verif/tools/status_table.py'], capture_output=True, text=True).stdout.strip()
sd = subprocess.run(['python3', '/verif/tools/status_table.py', 'seeded'], capture_output=True, text=True).stdout.strip()
sec = sec.replace('STATUS_TABLE', st).replace('SEEDED_TABLE', sd)
marker = '## 11. Build report'
app = '---\n\n## Appendix A'
if marker in d:
    i = d.index(marker)
    j = d.index(app)
    d = d[:i] + sec.rstrip('\n') + '\n\n' + d[j:]
else:
    j = d.index(app)
    d = d[:j] + sec.rstrip('\n') + '\n\n' + d[j:]
open('/verif/DESIGN.md', 'w').write(d)
print('section 11 written,', len(sec), 'bytes')
