#!/usr/bin/env python3
"""tools/status_table.py [status|seeded] -- markdown tables for DESIGN.md section 11, produced from MANIFEST.json,
the evidence files, the must-fail corpus and the seeded changes."""
import glob
import json
import os
import sys


def status_table():
    m = json.load(open('/verif/MANIFEST.json'))
    print("| property | functions under contract | obligations (quick) | discharged | solver s | wall s | must-fail mutants | seeded changes (detected/confirmed) |")
    print("|---|---|---|---|---|---|---|---|")
    for c in m['checks']:
        pid = c['property_id']
        ev = '/verif/evidence/%s.json' % pid
        if not os.path.exists(ev):
            continue
        d = json.load(open(ev))
        cov = d['coverage']
        muts = glob.glob('/verif/mutants/%s/*.patch' % pid)
        seeds = [json.load(open(f)) for f in glob.glob('/verif/seeded/%s_*/meta.json' % pid)]
        det = sum(1 for s in seeds if s.get('detected'))
        print("| %s | %d | %d | %d | %.0f | %.0f | %d | %d/%d |" % (
            pid, len(cov['functions_under_contract']), cov['obligations'], cov['discharged'], cov['solver_time_s'], d['wall_s'], len(muts), det, len(seeds)))
    print()
    print("not_applicable: " + ", ".join(n['property_id'] for n in m['not_applicable']))


def seeded_table():
    print("| property | change | needs | detected | by obligation(s) |")
    print("|---|---|---|---|---|")
    for f in sorted(glob.glob('/verif/seeded/*/meta.json')):
        s = json.load(open(f))
        by = s.get('detected_by', [])
        det = ", ".join(d.split('.')[-1] for d in by[:3])
        if len(by) > 3:
            det += ", ..."
        print("| %s | %s | %s | %s | %s |" % (s['property'], s['name'], s['needs_to_manifest'], "yes" if s.get('detected') else "NO", det))


if __name__ == '__main__':
    if len(sys.argv) > 1 and sys.argv[1] == 'seeded':
        seeded_table()
    else:
        status_table()
