#!/usr/bin/env python3
"""tools/manifest_set.py <Cxx> <level text> <level note>  -- add or replace a check entry in MANIFEST.json"""
import json, sys, subprocess
pid, text, note = sys.argv[1], sys.argv[2], sys.argv[3]
m = json.load(open('/verif/MANIFEST.json'))
c = {
 "property_id": pid, "quick_cmd": "./check %s" % pid, "thorough_cmd": "./check %s --tier thorough" % pid,
 "evidence_file": "/verif/evidence/%s.json" % pid, "replay_cmd_template": "./check --replay {path}", "engine": "govc",
 "level_claimed": {"category": "proof", "text": text, "design_ref": "DESIGN.md section 7, " + pid},
 "level_note": note,
 "technique": "contract-based deductive verification: weakest-precondition style VC generation over go/ssa of the real functions, contracts in //@ comment files, obligations discharged by z3/cvc5",
}
m['checks'] = [x for x in m['checks'] if x['property_id'] != pid] + [c]
m['checks'].sort(key=lambda c: c['property_id'])
claimed = {c['property_id'] for c in m['checks']}
m['not_applicable'] = [n for n in m['not_applicable'] if n['property_id'] not in claimed]
m['engines'][0]['serves_properties'] = sorted(claimed)
commits = subprocess.run(['git', '-C', '/repo', 'log', '--format=%h %s'], capture_output=True, text=True).stdout.split('\n')
m['hooks']['source_commits'] = [l.split()[0] for l in commits if 'verif hook' in l]
json.dump(m, open('/verif/MANIFEST.json', 'w'), indent=1)
print(sorted(claimed))
