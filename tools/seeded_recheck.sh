#!/bin/bash
# tools/seeded_recheck.sh -- re-runs the property check against every kept seeded change (applied to /repo and
# reverted straight afterwards); each must be reported (exit 1 with a VIOLATION line). Afterwards the
# checks are run once more on the unchanged tree so that the evidence files describe it.
export GOFLAGS=-mod=mod GOPROXY=off GOSUMDB=off GOTOOLCHAIN=local
if [ -n "$(git -C /repo status --short)" ]; then echo "/repo has uncommitted changes: commit them first"; exit 1; fi
bad=0; props=""
for d in /verif/seeded/*/; do
  p=$(python3 -c "import json;print(json.load(open('$d/meta.json'))['property'])")
  git -C /repo apply $d/patch.diff || { echo "patch of $d does not apply"; bad=1; continue; }
  out=$(cd /verif && timeout 1500 ./check $p 2>&1); rc=$?
  git -C /repo checkout -- .
  n=$(echo "$out" | grep -c "^VIOLATION")
  known_miss=$(python3 -c "import json;print(0 if json.load(open('$d/meta.json')).get('detected') else 1)")
  if [ $rc -eq 1 ] && [ $n -gt 0 ]; then echo "seeded $(basename $d): detected ($n violation lines)";
  elif [ "$known_miss" = "1" ]; then echo "seeded $(basename $d): not detected (recorded miss, exit $rc)";
  else echo "seeded $(basename $d): NOT DETECTED (exit $rc)"; bad=1; fi
  props="$props $p"
done
for p in $(echo $props | tr ' ' '\n' | sort -u); do (cd /verif && ./check $p >/dev/null 2>&1); done
exit $bad
