#!/bin/bash
# tools/refactor_eval.sh <name> <worktree> <prop> [props...]
# A semantics-preserving refactoring produced in a scratch worktree: every listed check must stay quiet
# (exit 0) with it applied to /repo. The patch is kept as a harmless entry (expect NONE) of the must-fail
# corpus of each property, so that ./check selftest keeps guarding against this kind of false alarm.
set -u
name=$1; wt=$2; shift 2
export GOFLAGS=-mod=mod GOPROXY=off GOSUMDB=off GOTOOLCHAIN=local
if [ -n "$(git -C /repo status --short)" ]; then echo "/repo has uncommitted changes: commit them first"; exit 1; fi
p=/tmp/refactor_$name.diff
(cd $wt && git diff > $p)
[ -s $p ] || { echo "empty diff"; exit 1; }
cd /repo && git apply $p || { echo "patch does not apply"; exit 1; }
build=ok; go build ./... >/dev/null 2>&1 || build=FAIL
res=""
for prop in "$@"; do
  out=$(cd /verif && timeout 1500 ./check $prop 2>&1); rc=$?
  echo "== $prop exit $rc"; echo "$out" | grep "^VIOLATION\|^FAILED\|^UNDECIDED\|^ENGINE\|^C[0-9]*:" | cut -c1-220
  res="$res $prop:$rc"
done
git -C /repo checkout -- .
for prop in "$@"; do
  mkdir -p /verif/mutants/$prop; cp $p /verif/mutants/$prop/refactor_$name.patch; echo NONE > /verif/mutants/$prop/refactor_$name.expect
  (cd /verif && ./check $prop >/dev/null 2>&1)
done
echo "refactor $name: build=$build results:$res"
