#!/bin/bash
# tools/seed_eval.sh <prop> <worktree> <name> "<needs>" [extra props to run...]
# Confirms a seeded change (compiles, existing tests pass, demo fails with / passes without), runs the
# checks against it on /repo (applied and reverted), and stores it under /verif/seeded/<prop>_<name>/.
set -u
prop=$1; wt=$2; name=$3; needs=$4; shift 4
export GOFLAGS=-mod=mod GOPROXY=off GOSUMDB=off GOTOOLCHAIN=local
out=/verif/seeded/${prop}_${name}; mkdir -p $out
cd $wt
git diff > $out/patch.diff
demo=$(git status --short | grep '^??' | grep zz_seed_demo_test.go | awk '{print $2}' | head -1)
[ -z "$demo" ] && { echo "no demo test in $wt"; exit 1; }
cp $demo $out/$(basename $demo)
pkg=./$(dirname $demo)
build=ok; go build ./... >/dev/null 2>&1 || build=FAIL
with=$(go test -vet=off -count=1 -run '^TestSeedDemo$' $pkg 2>&1 | tail -1)
git apply -R $out/patch.diff
without=$(go test -vet=off -count=1 -run '^TestSeedDemo$' $pkg 2>&1 | tail -1)
git apply $out/patch.diff
files=$(git diff --name-only | xargs -n1 dirname | sort -u | sed 's|^|./|;s|$|/...|' | tr '\n' ' ')
suite=$(go test -vet=off -count=1 -skip '^TestSeedDemo$' $files ./pipeline/... ./storage/... ./service/... ./orchestrator/... ./manifest/... ./block/... ./sqe/... ./pb/... 2>&1 | grep -v "no test files" | grep -v "^ok" | head -5)
[ -z "$suite" ] && suite="all ok"
# run the checks on /repo with the change applied (never on a dirty tree: the revert would lose edits)
if [ -n "$(git -C /repo status --short)" ]; then echo "/repo has uncommitted changes: commit them first"; exit 1; fi
cd /repo && git apply $out/patch.diff || { echo "patch does not apply to /repo"; exit 1; }
results=""
for p in $prop "$@"; do
  r=$(cd /verif && timeout 1500 ./check $p 2>&1 | grep "^VIOLATION\|^FAILED\|^UNDECIDED\|^C[0-9]*:" | cut -c1-300)
  results="$results
== ./check $p
$r"
done
git -C /repo checkout -- . 
# the evidence files must describe the unchanged tree: run the checks again now that the change is undone
for p in $prop "$@"; do (cd /verif && timeout 1500 ./check $p >/dev/null 2>&1); done
echo "$results" > $out/check_output.txt
python3 - "$prop" "$name" "$needs" "$build" "$with" "$without" "$suite" "$out" <<'PY'
import json,sys
prop,name,needs,build,withc,without,suite,out=sys.argv[1:9]
co=open(out+'/check_output.txt').read()
detected=[l.split()[2] for l in co.split('\n') if l.startswith('FAILED obligation')]+[l.split()[1] for l in co.split('\n') if l.startswith('UNDECIDED-OBLIGATION')]
meta={"property":prop,"name":name,"breaks":prop,"needs_to_manifest":needs,
 "confirmed":{"go build ./...":build,"demo with change (must fail)":withc,"demo without change (must pass)":without,"existing tests with change":suite},
 "checks_run":[l[3:] for l in co.split('\n') if l.startswith('== ')],
 "detected_by":detected,"detected":bool(detected)}
json.dump(meta,open(out+'/meta.json','w'),indent=1)
print(json.dumps(meta,indent=1))
PY
