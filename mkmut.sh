#!/bin/bash
# mkmut.sh <prop> <name> <file relative to /repo> <sed expression> <expected obligation substring...>
# Creates a mutant patch from a sed edit of one file (the repository is restored afterwards).
set -e
prop=$1; name=$2; file=$3; expr=$4; shift 4
mkdir -p /verif/mutants/$prop
cd /repo
cp $file /tmp/mkmut.orig
sed -i "$expr" $file
if cmp -s $file /tmp/mkmut.orig; then echo "sed did not change $file"; exit 1; fi
git diff -- $file > /verif/mutants/$prop/$name.patch
git checkout -- $file
: > /verif/mutants/$prop/$name.expect
for e in "$@"; do echo "$e" >> /verif/mutants/$prop/$name.expect; done
rm -f /tmp/mkmut.orig
echo "created mutants/$prop/$name.patch"
