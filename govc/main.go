package main

import (
	"flag"
	"path/filepath"
	"fmt"
	"os"
	"sort"
	"strings"

	"golang.org/x/tools/go/ssa"
)

func usage() {
	fmt.Fprintln(os.Stderr, `usage:
  govc check -prop Cxx [-tier quick|thorough] [-repo /repo] [-verif /verif]
  govc dump <pkg pattern> <function name>
  govc smt -prop Cxx -ob <obligation name>      print the SMT script of one obligation
  govc rebaseline [-prop Cxx]                   rewrite baseline/obligations.json
  govc replay <replay file>`)
	os.Exit(2)
}

func main() {
	if len(os.Args) < 2 {
		usage()
	}
	switch os.Args[1] {
	case "check":
		os.Exit(cmdCheck(os.Args[2:]))
	case "dump":
		cmdDump(os.Args[2:])
	case "smt":
		os.Exit(cmdSmt(os.Args[2:]))
	case "rebaseline":
		os.Exit(cmdRebaseline(os.Args[2:]))
	case "replay":
		os.Exit(cmdReplay(os.Args[2:]))
	case "selftest":
		os.Exit(cmdSelftest(os.Args[2:]))
	default:
		usage()
	}
}

func cmdDump(args []string) {
	if len(args) < 2 {
		usage()
	}
	ld, err := Load("/repo", []string{args[0]}, nil)
	if err != nil {
		fmt.Fprintln(os.Stderr, err)
		os.Exit(2)
	}
	var keys []string
	for k := range ld.funcs {
		keys = append(keys, k)
	}
	sort.Strings(keys)
	for _, k := range keys {
		fn := ld.funcs[k]
		if fn.Name() == args[1] || strings.HasSuffix(k, "::"+args[1]) {
			fmt.Println("# key:", k)
			fn.WriteTo(os.Stdout)
		}
	}
}

// hasTag reports whether tags contains prop.
func hasTag(tags []string, prop string) bool {
	for _, t := range tags {
		if t == prop {
			return true
		}
	}
	return false
}

func contractMentions(c *Contract, prop string) bool {
	if hasTag(c.Tags, prop) {
		return true
	}
	for _, cls := range [][]Clause{c.Requires, c.Ensures, c.XEnsures, c.PanicsIf} {
		for _, cl := range cls {
			if hasTag(cl.Tags, prop) {
				return true
			}
		}
	}
	for _, l := range c.Loops {
		for _, cl := range l.Invariants {
			if hasTag(cl.Tags, prop) {
				return true
			}
		}
	}
	return false
}

func pkgOfKey(key string) string {
	i := strings.Index(key, "::")
	if i < 0 {
		return ""
	}
	return key[:i]
}

type flags struct {
	prop, tier, repo, verif, ob string
	seed                        int
	keep                        bool
	verbose                     bool
	onlyTouched                 bool
	fnFilter                    string
	jobs                        int
}

func parseFlags(args []string) *flags {
	fs := flag.NewFlagSet("govc", flag.ExitOnError)
	f := &flags{}
	fs.StringVar(&f.prop, "prop", "", "property id")
	fs.StringVar(&f.tier, "tier", "quick", "quick or thorough")
	fs.StringVar(&f.repo, "repo", "/repo", "repository root")
	fs.StringVar(&f.verif, "verif", "/verif", "verification directory")
	fs.StringVar(&f.ob, "ob", "", "obligation name (smt)")
	fs.IntVar(&f.seed, "seed", 0, "seed")
	fs.BoolVar(&f.keep, "keep", false, "keep SMT scripts")
	fs.BoolVar(&f.verbose, "v", false, "verbose")
	fs.BoolVar(&f.onlyTouched, "touched", true, "selftest: re-verify only functions that depend on the patched files (modular verification)")
	fs.IntVar(&f.jobs, "j", 10, "parallel obligations")
	fs.BoolVar(&useHybrid, "hybrid", false, "try a hybrid script (flat quantified hypotheses left to the solver) before the generator-instantiated one")
	fs.StringVar(&f.fnFilter, "func", "", "only verify functions whose key contains this text (debugging; evidence is not valid)")
	fs.Parse(args)
	if s := os.Getenv("VERIF_SEED"); s != "" && f.seed == 0 {
		fmt.Sscanf(s, "%d", &f.seed)
	}
	if t := os.Getenv("VERIF_TIER"); t != "" && f.tier == "quick" {
		f.tier = t
	}
	return f
}

// collect generates all obligations of a property.
type propWork struct {
	execs      []*Exec
	obls       []*Obligation
	oblExec    map[*Obligation]*Exec
	funcs      []string
	engineErrs []string
	db         *ContractDB
	ld         *Loader
}

// touchesFiles: fn is defined in one of the files, or inlines (transitively) a contract-less function
// defined in one of them.
func touchesFiles(ld *Loader, db *ContractDB, fn *ssa.Function, files map[string]bool, seen map[*ssa.Function]bool, depth int) bool {
	if fn == nil || seen[fn] || depth > 8 {
		return false
	}
	seen[fn] = true
	if fn.Pos().IsValid() && files[ld.prog.Fset.Position(fn.Pos()).Filename] {
		return true
	}
	if fn.Synthetic != "" {
		// a wrapper for a promoted method: it exists (or not) depending on the patched declarations
		if sp, ok := ld.wrapperPkg[fn]; ok {
			for p := range files {
				if strings.HasPrefix(p, filepath.Join("/repo", strings.TrimPrefix(sp.Pkg.Path(), modulePath))) {
					return true
				}
			}
		}
	}
	for _, af := range fn.AnonFuncs {
		if touchesFiles(ld, db, af, files, seen, depth+1) {
			return true
		}
	}
	for _, b := range fn.Blocks {
		for _, ins := range b.Instrs {
			var cc *ssa.CallCommon
			switch c := ins.(type) {
			case *ssa.Call:
				cc = &c.Call
			case *ssa.Defer:
				cc = &c.Call
			}
			if cc == nil {
				continue
			}
			callee := cc.StaticCallee()
			if callee == nil || callee.Blocks == nil {
				continue
			}
			if con := db.Funcs[relKey(callee)]; con != nil && !con.Inline {
				continue
			}
			if touchesFiles(ld, db, callee, files, seen, depth+1) {
				return true
			}
		}
	}
	return false
}

func collect(f *flags, overlay map[string][]byte) (*propWork, error) {
	richTable = map[*Frame]map[*ssa.Alloc]Val{} // per-run side table (the self-test calls collect once per mutant)
	db, err := LoadContracts(f.repo, f.verif+"/assumed")
	if err != nil {
		return nil, err
	}
	w := &propWork{oblExec: map[*Obligation]*Exec{}, db: db}
	pkgSet := map[string]bool{}
	var keys []string
	for k, c := range db.Funcs {
		if c.Trusted || !contractMentions(c, f.prop) {
			continue
		}
		keys = append(keys, k)
		pkgSet[pkgOfKey(k)] = true
	}
	sort.Strings(keys)
	var lemmas []*Lemma
	for _, l := range db.Lemmas {
		if hasTag(l.Tags, f.prop) {
			lemmas = append(lemmas, l)
			pkgSet[lemmaPkg(f.repo, l)] = true
		}
	}
	if len(keys) == 0 && len(lemmas) == 0 {
		return nil, fmt.Errorf("no contracts or lemmas tagged %s", f.prop)
	}
	// every package that carries a contract file is loaded with syntax, so that the types written in
	// its spec functions resolve in the scope of its own files
	for _, cf := range db.Files {
		if strings.HasSuffix(cf, "verif_contracts.go") {
			rel := strings.TrimPrefix(strings.TrimPrefix(cf, f.repo), "/")
			if i := strings.LastIndex(rel, "/"); i >= 0 {
				pkgSet[modulePath+"/"+rel[:i]] = true
			}
		}
	}
	// generated protobuf packages: loaded with bodies so that their nil-safe getters can be inlined
	for _, pb := range []string{"pb/sf/substreams/v1", "pb/sf/substreams/intern/v2", "pb/sf/substreams/rpc/v2"} {
		pkgSet[modulePath+"/"+pb] = true
	}
	var patterns []string
	for p := range pkgSet {
		patterns = append(patterns, p)
	}
	sort.Strings(patterns)
	ld, err := Load(f.repo, patterns, overlay)
	if err != nil {
		return nil, err
	}
	w.ld = ld
	var onlyFiles map[string]bool
	if f.onlyTouched && overlay != nil {
		onlyFiles = map[string]bool{}
		for p := range overlay {
			onlyFiles[p] = true
		}
	}
	for _, k := range keys {
		fn := ld.funcs[k]
		if fn == nil && ld.isInterfaceMethodKey(k) {
			continue // contract of an interface method (used at invoke sites, nothing to verify)
		}
		if fn == nil {
			w.engineErrs = append(w.engineErrs, fmt.Sprintf("contract names a function that does not exist: %s", k))
			continue
		}
		if onlyFiles != nil && !touchesFiles(ld, db, fn, onlyFiles, map[*ssa.Function]bool{}, 0) {
			continue
		}
		if f.fnFilter != "" && !strings.Contains(k, f.fnFilter) {
			continue
		}
		x, err := VerifyFunction(ld, db, fn, db.Funcs[k])
		if err != nil {
			w.engineErrs = append(w.engineErrs, fmt.Sprintf("%s: %v", k, err))
			continue
		}
		w.execs = append(w.execs, x)
		w.funcs = append(w.funcs, k)
		for _, ob := range x.obls {
			if hasTag(ob.Tags, f.prop) {
				w.obls = append(w.obls, ob)
				w.oblExec[ob] = x
			}
		}
	}
	for _, l := range lemmas {
		if onlyFiles != nil {
			continue // lemmas do not depend on code
		}
		x, err := VerifyLemma(ld, db, lemmaPkg(f.repo, l), l)
		if err != nil {
			w.engineErrs = append(w.engineErrs, fmt.Sprintf("lemma %s: %v", l.Name, err))
			continue
		}
		w.execs = append(w.execs, x)
		for _, ob := range x.obls {
			w.obls = append(w.obls, ob)
			w.oblExec[ob] = x
		}
	}
	return w, nil
}

func lemmaPkg(repo string, l *Lemma) string {
	dir := strings.TrimPrefix(l.File, repo)
	dir = strings.TrimPrefix(dir, "/")
	i := strings.LastIndex(dir, "/")
	if i < 0 {
		return modulePath
	}
	return modulePath + "/" + dir[:i]
}

// VerifyLemma: a pure validity obligation over spec functions.
func VerifyLemma(ld *Loader, db *ContractDB, pkgPath string, l *Lemma) (x *Exec, err error) {
	sp := ld.spkgs[pkgPath]
	if sp == nil {
		return nil, fmt.Errorf("package %s not loaded", pkgPath)
	}
	x = &Exec{prog: ld.prog, pkg: sp, b: NewBuilder(), db: db, ld: ld, cands: NewCands(),
		initHeaps: map[string]Term{}, counters: map[string]int{}, assumptions: map[string]bool{}, params: map[string]TV{},
		fnKey: pkgPath + "::lemma " + l.Name, uninterpApps: map[string][][]TV{}, typeTags: map[string]int{}}
	x.tm = &TypeMap{b: x.b}
	defer func() {
		if r := recover(); r != nil {
			switch e := r.(type) {
			case unsupportedErr:
				err = fmt.Errorf("unsupported: %s", e.msg)
			case specErr:
				err = fmt.Errorf("contract error: %s", e.msg)
			default:
				panic(r)
			}
		}
	}()
	st := &State{reach: tTrue, locals: map[*ssa.Alloc]Term{}, heaps: map[string]Term{}}
	x.cur = st
	st.Alloc(x)
	x.entry = st
	env := &Env{x: x, sink: x.b, vars: map[string]TV{}, st: st, old: st, cands: x.cands}
	short := strings.TrimPrefix(pkgPath, modulePath+"/")
	ob := &Obligation{Name: short + ".lemma:" + l.Name, Kind: "lemma", Tags: l.Tags, Func: x.fnKey, mark: x.b.Mark(), guard: tTrue, expr: l.Expr, env: env, Src: l.Src,
		Pos: fmt.Sprintf("%s:%d", shortPath(l.File), l.Line)}
	x.obls = append(x.obls, ob)
	return x, nil
}
