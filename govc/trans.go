package main

// Translation of spec expressions to SMT terms in an environment (variable
// bindings + heap state), with generator-side quantifier handling:
//   - forall in goal position / exists in hypothesis position: skolemised;
//   - forall in hypothesis position / exists in goal position: instantiated at the
//     candidate terms collected from the obligation (indexes, map keys, references).

import (
	"fmt"
	"os"
	"go/token"
	"go/types"
	"sort"
	"strings"
)

type TV struct {
	T  Term
	Ty types.Type // nil: mathematical value (Int/Bool) or spec-only sort
}

// Cands is the registry of ground terms used for instantiation. Each term remembers the
// position (builder mark) at which it became defined, so that an obligation only uses terms
// that exist in its script.
type Cands struct {
	idx  map[string]int          // integer terms used as slice/array indexes
	keys map[Sort]map[string]int // map keys by sort
	refs map[string]int          // dereferenced references
	ints map[string]int          // other integer terms offered through hints
	mark func() int
	tags map[string]map[string]bool // index candidate -> symbols of the arrays it indexes
	symf func(arr string, out map[string]bool)
}

func NewCands() *Cands {
	return &Cands{idx: map[string]int{}, keys: map[Sort]map[string]int{}, refs: map[string]int{}, ints: map[string]int{}}
}

func (c *Cands) now() int {
	if c.mark != nil {
		return c.mark()
	}
	return 0
}

func put(m map[string]int, k string, v int) {
	if old, ok := m[k]; !ok || v < old {
		m[k] = v
	}
}

func (c *Cands) addIdx(t Term) { c.addIdxFor(t, Term{}) }

// addIdxFor registers t as an index used on the array/slice term arr.
func (c *Cands) addIdxFor(t Term, arr Term) {
	if c == nil || strings.Contains(t.S, "?q") {
		return
	}
	_, existed := c.idx[t.S]
	put(c.idx, t.S, c.now())
	if arr.S == "" || c.symf == nil || existed {
		return // tags come from the first use only: instantiating a hypothesis at a candidate must not retag it
	}
	if c.tags == nil {
		c.tags = map[string]map[string]bool{}
	}
	m := c.tags[t.S]
	if m == nil {
		m = map[string]bool{}
		c.tags[t.S] = m
	}
	n := len(m)
	c.symf(arr.S, m)
	if len(m) == n {
		m["sort:"+string(arr.Sort)] = true
	}
}
func (c *Cands) addKey(t Term) {
	if c == nil || strings.Contains(t.S, "?q") {
		return
	}
	m := c.keys[t.Sort]
	if m == nil {
		m = map[string]int{}
		c.keys[t.Sort] = m
	}
	put(m, t.S, c.now())
}
func (c *Cands) addRef(t Term) {
	if c != nil && t.S != "0" && !strings.Contains(t.S, "?q") {
		put(c.refs, t.S, c.now())
	}
}

// cloneUpTo copies the candidates defined at or before mark; the copy registers new terms at 0
// (obligation-local).
func (c *Cands) cloneUpTo(mark int) *Cands {
	n := NewCands()
	cp := func(dst, src map[string]int) {
		for k, v := range src {
			if v <= mark {
				dst[k] = 0
			}
		}
	}
	cp(n.idx, c.idx)
	n.symf = c.symf
	n.tags = map[string]map[string]bool{}
	for k, v := range c.tags {
		if _, ok := n.idx[k]; ok {
			m := map[string]bool{}
			for s := range v {
				m[s] = true
			}
			n.tags[k] = m
		}
	}
	cp(n.refs, c.refs)
	cp(n.ints, c.ints)
	for s, m := range c.keys {
		n.keys[s] = map[string]int{}
		cp(n.keys[s], m)
	}
	return n
}
func (c *Cands) size() int {
	n := len(c.idx) + len(c.refs) + len(c.ints)
	for _, m := range c.keys {
		n += len(m)
	}
	return n
}

type Env struct {
	x        *Exec
	sink     *Builder
	vars     map[string]TV
	st       *State
	old      *State
	cands    *Cands
	assume   bool // true: expression is a hypothesis
	facts    *[]Term
	skTag    string
	inst     *int // running instance counter (names of nested skolems)
	depth    int
	useCand  bool // instantiate with candidates (phase 2); false: phase 1 (collect only)
	hasHypQ  *bool
	fnPos    token.Pos
	szMaps   *map[string]Term
	instPath string // instantiation terms of the enclosing instantiated quantifiers (names nested skolems)
	canonQ   bool   // render quantifiers as SMT quantifiers over canonical bound names (for syntactic matching)
	noShare  bool
	hybrid   bool
	forceNative bool // inside a sub-formula of mixed polarity: every quantifier is emitted natively
	hybridAll bool // alternating hypotheses stay with the solver as well (contract pragma: quantifiers solver)
	specPkg  string // package of the spec function being expanded (type names in its body resolve there)
	qdepth   int
}

func (e *Env) with(vars map[string]TV) *Env {
	n := *e
	n.vars = vars
	return &n
}

func (e *Env) flip() *Env {
	n := *e
	n.assume = !e.assume
	return &n
}

func (e *Env) fact(t Term) {
	if e.facts != nil && t.S != "true" {
		*e.facts = append(*e.facts, t)
	}
}

type specErr struct{ msg string }

func (s specErr) Error() string { return s.msg }

func sfail(format string, args ...interface{}) {
	panic(specErr{fmt.Sprintf(format, args...)})
}

func (e *Env) sortOf(t types.Type) Sort { return e.x.tm.SortOf(t) }

func (e *Env) Bool(x *Expr) Term {
	tv := e.Tr(x)
	if tv.T.Sort != SBool {
		sfail("expected boolean, got %s in %s", tv.T.Sort, x)
	}
	return tv.T
}

func (e *Env) Tr(x *Expr) TV {
	tv := e.tr(x)
	if !e.canonQ && e.sink != nil && !e.noShare {
		switch x.Kind {
		case EField, EIndex, ECall, EBinary, ECond, EQuant, EUnary:
			if !strings.Contains(tv.T.S, "?q") && !strings.Contains(tv.T.S, "dummy_") {
				tv.T = e.sink.Share(tv.T)
			}
		}
	}
	return tv
}

func (e *Env) tr(x *Expr) TV {
	switch x.Kind {
	case EInt:
		return TV{e.intLit(x.Name), nil}
	case EBool:
		if x.Name == "true" {
			return TV{tTrue, nil}
		}
		return TV{tFalse, nil}
	case EStr:
		return TV{e.x.b.StrLit(x.Name), types.Typ[types.String]}
	case ENil:
		return TV{IntLit(0), types.Typ[types.UntypedNil]}
	case EIdent:
		if tv, ok := e.vars[x.Name]; ok {
			return tv
		}
		if tv, ok := e.x.lookupIdent(e, x.Name); ok {
			return tv
		}
		sfail("unknown identifier %q", x.Name)
	case EUnary:
		switch x.Name {
		case "!":
			return TV{Not(e.flip().Bool(x.Args[0])), nil}
		case "-":
			a := e.Tr(x.Args[0])
			return TV{mk(SInt, "(- %s)", a.T), nil}
		}
	case EBinary:
		return e.binary(x)
	case ECond:
		// condition appears in both polarities
		c := e.boolBoth(x.Args[0])
		a := e.Tr(x.Args[1])
		b := e.Tr(x.Args[2])
		a, b = e.unifyNil(a, b)
		return TV{Ite(c, a.T, b.T), pickTy(a.Ty, b.Ty)}
	case ECall:
		return e.call(x)
	case EField:
		return e.field(x)
	case EIndex:
		return e.index(x)
	case ESlice:
		s := e.Tr(x.Args[0])
		lo := e.Tr(x.Args[1]).T
		hi := e.Tr(x.Args[2]).T
		if isSliceSort(s.T.Sort) {
			return TV{e.x.subSlice(e.sink, s.T, lo, hi), s.Ty}
		}
		sfail("slice expression on %s", s.T.Sort)
	case EQuant:
		return e.quant(x)
	}
	sfail("cannot translate %s", x)
	return TV{}
}

func pickTy(a, b types.Type) types.Type {
	if a != nil {
		if bb, ok := a.(*types.Basic); !ok || bb.Kind() != types.UntypedNil {
			return a
		}
	}
	return b
}

// boolBoth translates a boolean that occurs in both polarities (no quantifiers allowed
// unless they can be handled in both; we translate as goal and as hypothesis and require
// the expression to be quantifier-free).
func (e *Env) boolBoth(x *Expr) Term {
	if containsQuant(x, e.x.db) {
		if !(e.canonQ && e.hybridAll) {
			sfail("quantifier in a position of mixed polarity: %s", x)
		}
		// solver-side quantifiers: emitted natively, whatever the polarity
		n := *e
		n.forceNative = true
		return n.Bool(x)
	}
	return e.Bool(x)
}

func containsQuant(x *Expr, db *ContractDB) bool {
	return containsQuantDepth(x, db, 0)
}

func containsQuantDepth(x *Expr, db *ContractDB, d int) bool {
	if x == nil || d > 20 {
		return false
	}
	if x.Kind == EQuant {
		return true
	}
	if x.Kind == ECall && db != nil {
		if sf, ok := db.Specs[x.Name]; ok && sf.Body != nil && !sf.Rec {
			if containsQuantDepth(sf.Body, db, d+1) {
				return true
			}
		}
	}
	for _, a := range x.Args {
		if containsQuantDepth(a, db, d) {
			return true
		}
	}
	return false
}

func (e *Env) intLit(s string) Term {
	if strings.HasPrefix(s, "0x") {
		var n uint64
		fmt.Sscanf(s, "0x%x", &n)
		return Term{fmt.Sprintf("%d", n), SInt}
	}
	return Term{s, SInt}
}

func (e *Env) unifyNil(a, b TV) (TV, TV) {
	isNil := func(t TV) bool {
		bb, ok := t.Ty.(*types.Basic)
		return ok && bb.Kind() == types.UntypedNil
	}
	nilOf := func(s Sort, ty types.Type) Term {
		switch {
		case s == SIfc:
			return nilIfc
		case s == SStr:
			return Term{"bytes_nil", SStr}
		case s == SInt:
			return IntLit(0)
		}
		sfail("nil compared with %s", s)
		return Term{}
	}
	if isNil(a) && !isNil(b) {
		a = TV{nilOf(b.T.Sort, b.Ty), b.Ty}
	} else if isNil(b) && !isNil(a) {
		b = TV{nilOf(a.T.Sort, a.Ty), a.Ty}
	}
	return a, b
}

func (e *Env) binary(x *Expr) TV {
	op := x.Name
	switch op {
	case "==>":
		a := e.flip().Bool(x.Args[0])
		b := e.Bool(x.Args[1])
		return TV{Implies(a, b), nil}
	case "<==>":
		a := e.boolBoth(x.Args[0])
		b := e.boolBoth(x.Args[1])
		return TV{Eq(a, b), nil}
	case "&&":
		return TV{And(e.Bool(x.Args[0]), e.Bool(x.Args[1])), nil}
	case "||":
		return TV{Or(e.Bool(x.Args[0]), e.Bool(x.Args[1])), nil}
	case "in":
		k := e.Tr(x.Args[0])
		m := e.Tr(x.Args[1])
		mv := e.mapValue(m)
		e.cands.addKey(k.T)
		has := Select(MapHas(mv), k.T)
		if !isMapSort(m.T.Sort) {
			has = And(Not(Eq(m.T, IntLit(0))), has) // a nil map has no keys
		}
		return TV{has, nil}
	}
	a := e.Tr(x.Args[0])
	b := e.Tr(x.Args[1])
	switch op {
	case "==", "!=":
		a, b = e.unifyNil(a, b)
		if a.T.Sort != b.T.Sort {
			sfail("comparing %s with %s in %s", a.T.Sort, b.T.Sort, x)
		}
		if op == "==" {
			return TV{Eq(a.T, b.T), nil}
		}
		return TV{Not(Eq(a.T, b.T)), nil}
	case "<", "<=", ">", ">=":
		if a.T.Sort == SStr && b.T.Sort == SStr {
			e.x.b.DeclFun("str_lt", []Sort{SStr, SStr}, SBool)
			lt := func(p, q Term) Term { return App(SBool, "str_lt", p, q) }
			// total strict order facts for this pair
			e.fact(And(Or(Eq(a.T, b.T), lt(a.T, b.T), lt(b.T, a.T)), Not(And(lt(a.T, b.T), lt(b.T, a.T))), Not(lt(a.T, a.T)), Not(lt(b.T, b.T))))
			switch op {
			case "<":
				return TV{lt(a.T, b.T), nil}
			case ">":
				return TV{lt(b.T, a.T), nil}
			case "<=":
				return TV{Not(lt(b.T, a.T)), nil}
			default:
				return TV{Not(lt(a.T, b.T)), nil}
			}
		}
		if a.T.Sort != SInt || b.T.Sort != SInt {
			sfail("ordering on non-integers in %s", x)
		}
		return TV{mk(SBool, "(%s %s %s)", op, a.T, b.T), nil}
	case "+", "-", "*":
		if a.T.Sort != SInt || b.T.Sort != SInt {
			sfail("arithmetic on non-integers in %s (%s, %s)", x, a.T.Sort, b.T.Sort)
		}
		return TV{mk(SInt, "(%s %s %s)", op, a.T, b.T), nil}
	case "/":
		return TV{mk(SInt, "(div %s %s)", a.T, b.T), nil}
	case "%":
		return TV{mk(SInt, "(mod %s %s)", a.T, b.T), nil}
	case "<<":
		return TV{mk(SInt, "(* %s %s)", a.T, pow2(b.T)), nil}
	case ">>":
		return TV{mk(SInt, "(div %s %s)", a.T, pow2(b.T)), nil}
	}
	sfail("unknown operator %s", op)
	return TV{}
}

func pow2(t Term) Term {
	var n uint
	if _, err := fmt.Sscanf(t.S, "%d", &n); err != nil || n > 200 {
		sfail("shift by non-constant %s", t)
	}
	s := "1"
	for i := uint(0); i < n; i++ {
		s = mulDec2(s)
	}
	return Term{s, SInt}
}

func mulDec2(s string) string {
	carry := 0
	out := make([]byte, 0, len(s)+1)
	for i := len(s) - 1; i >= 0; i-- {
		d := int(s[i]-'0')*2 + carry
		out = append(out, byte('0'+d%10))
		carry = d / 10
	}
	if carry > 0 {
		out = append(out, byte('0'+carry))
	}
	for i, j := 0, len(out)-1; i < j; i, j = i+1, j-1 {
		out[i], out[j] = out[j], out[i]
	}
	return string(out)
}

// mapValue returns the MapV term for a map-typed value (a reference into the map
// heap) or passes through a spec-level MapV value.
func (e *Env) mapValue(m TV) Term {
	if isMapSort(m.T.Sort) {
		return m.T
	}
	mt, ok := m.Ty.Underlying().(*types.Map)
	if !ok {
		sfail("not a map: %s", m.T)
	}
	return e.x.mapSel(e.st, mt, m.T)
}

func (e *Env) field(x *Expr) TV {
	base := e.Tr(x.Args[0])
	if base.Ty == nil {
		sfail("field %s of untyped value %s", x.Name, x.Args[0])
	}
	obj, index, indirect := lookupField(base.Ty, e.x.pkgTypes(), x.Name)
	fv, ok := obj.(*types.Var)
	if !ok || fv == nil {
		// ghost field?
		if g, ok := e.x.ghostField(e, base, x.Name); ok {
			return g
		}
		sfail("no field %s in %s", x.Name, base.Ty)
	}
	_ = indirect
	cur := base
	for _, i := range index {
		cur = e.x.fieldStep(e, cur, i)
	}
	return cur
}

func (e *Env) index(x *Expr) TV {
	a := e.Tr(x.Args[0])
	i := e.Tr(x.Args[1])
	switch {
	case isSliceSort(a.T.Sort):
		e.cands.addIdxFor(i.T, a.T)
		var et types.Type
		if a.Ty != nil {
			if st, ok := a.Ty.Underlying().(*types.Slice); ok {
				et = st.Elem()
			}
		}
		v := Select(SlElems(a.T), i.T)
		e.x.wfLoaded(e, v, et, And(mk(SBool, "(<= 0 %s)", i.T), mk(SBool, "(< %s %s)", i.T, SlLen(a.T))))
		return TV{v, et}
	case strings.HasPrefix(string(a.T.Sort), "(Array "):
		if i.T.Sort == SStr {
			e.cands.addKey(i.T)
		} else {
			e.cands.addIdxFor(i.T, a.T)
		}
		var et types.Type
		if a.Ty != nil {
			if at, ok := a.Ty.Underlying().(*types.Array); ok {
				et = at.Elem()
			}
		}
		return TV{Select(a.T, i.T), et}
	case a.T.Sort == SStr:
		return TV{mk(SInt, "(str_byte %s %s)", a.T, i.T), nil}
	}
	if a.Ty != nil {
		if mt, ok := a.Ty.Underlying().(*types.Map); ok {
			mv := e.x.mapSel(e.st, mt, a.T)
			e.cands.addKey(i.T)
			v := Select(MapVal(mv), i.T)
			e.x.wfLoaded(e, v, mt.Elem(), Select(MapHas(mv), i.T))
			return TV{v, mt.Elem()}
		}
	}
	if isMapSort(a.T.Sort) {
		e.cands.addKey(i.T)
		return TV{Select(MapVal(a.T), i.T), nil}
	}
	sfail("cannot index %s (sort %s)", x.Args[0], a.T.Sort)
	return TV{}
}

func (e *Env) call(x *Expr) TV {
	switch x.Name {
	case "old":
		n := *e
		if e.old != nil {
			n.st = e.old
		}
		r := n.Tr(x.Args[0])
		// old(m) of a map is the snapshot of its content, not just the (unchanged) reference
		if r.Ty != nil {
			if _, ok := r.Ty.Underlying().(*types.Map); ok {
				return TV{n.mapValue(r), nil}
			}
		}
		return r
	case "len":
		a := e.Tr(x.Args[0])
		switch {
		case isSliceSort(a.T.Sort):
			return TV{SlLen(a.T), nil}
		case a.T.Sort == SStr:
			return TV{e.x.strLen(e, a.T), nil}
		case isMapSort(a.T.Sort):
			return TV{MapCard(a.T), nil}
		}
		if a.Ty != nil {
			if mt, ok := a.Ty.Underlying().(*types.Map); ok {
				return TV{MapCard(e.x.mapSel(e.st, mt, a.T)), nil}
			}
			if at, ok := a.Ty.Underlying().(*types.Array); ok {
				return TV{IntLit(at.Len()), nil}
			}
		}
		sfail("len of %s", a.T.Sort)
	case "ite":
		// ite(c, a, b): conditional value (c quantifier-free)
		c := e.boolBoth(x.Args[0])
		a := e.Tr(x.Args[1])
		b := e.Tr(x.Args[2])
		if a.T.Sort != b.T.Sort {
			sfail("ite: branches of sorts %s and %s", a.T.Sort, b.T.Sort)
		}
		return TV{Ite(c, a.T, b.T), pickTy(a.Ty, b.Ty)}
	case "wrap64":
		// wrap64(e): the int64 value of the mathematical integer e (two's complement)
		a := e.Tr(x.Args[0])
		return TV{wrapTo(a.T, types.Typ[types.Int64]), nil}
	case "keyset":
		// keyset(m): the set of keys of a Go map (empty for the nil map)
		a := e.Tr(x.Args[0])
		if a.Ty == nil {
			sfail("keyset needs a Go map")
		}
		mt, ok := a.Ty.Underlying().(*types.Map)
		if !ok {
			sfail("keyset needs a Go map")
		}
		mv := e.x.mapSel(e.st, mt, a.T)
		ks := e.x.tm.SortOf(mt.Key())
		return TV{Ite(Eq(a.T, IntLit(0)), e.x.tm.ConstArray(ks, tFalse), MapHas(mv)), nil}
	case "lookup":
		// lookup(m, k): the Go expression m[k] of a map (zero value when k is absent)
		a := e.Tr(x.Args[0])
		k := e.Tr(x.Args[1])
		if a.Ty == nil {
			sfail("lookup needs a Go map")
		}
		mt, ok := a.Ty.Underlying().(*types.Map)
		if !ok {
			sfail("lookup needs a Go map")
		}
		mv := e.x.mapSel(e.st, mt, a.T)
		e.cands.addKey(k.T)
		return TV{Ite(And(Not(Eq(a.T, IntLit(0))), Select(MapHas(mv), k.T)), Select(MapVal(mv), k.T), e.x.tm.Zero(mt.Elem())), mt.Elem()}
	case "upd":
		// upd(a, k, v): the ghost array a with a[k] = v
		a := e.Tr(x.Args[0])
		k := e.Tr(x.Args[1])
		v := e.Tr(x.Args[2])
		if !strings.HasPrefix(string(a.T.Sort), "(Array ") {
			sfail("upd needs an array-sorted ghost value, got %s", a.T.Sort)
		}
		if k.T.Sort == SStr {
			e.cands.addKey(k.T)
		}
		return TV{StoreT(a.T, k.T, v.T), a.Ty}
	case "push":
		// push(s, v): the slice s extended by one element (spec-level append, for ghost sequences)
		a := e.Tr(x.Args[0])
		v := e.Tr(x.Args[1])
		if !isSliceSort(a.T.Sort) {
			sfail("push needs a slice, got %s", a.T.Sort)
		}
		if v.T.Sort != sliceElem(a.T.Sort) {
			sfail("push: element sort %s, slice of %s", v.T.Sort, sliceElem(a.T.Sort))
		}
		return TV{MkSlice(StoreT(SlElems(a.T), SlLen(a.T), v.T), mk(SInt, "(+ %s 1)", SlLen(a.T))), a.Ty}
	case "min", "max":
		a := e.Tr(x.Args[0]).T
		for _, r := range x.Args[1:] {
			b := e.Tr(r).T
			a = mk(SInt, "(i%s %s %s)", x.Name, a, b)
		}
		return TV{a, nil}
	case "fresh":
		a := e.Tr(x.Args[0])
		oa := e.st.Alloc(e.x)
		if e.old != nil {
			oa = e.old.Alloc(e.x)
		}
		return TV{And(mk(SBool, "(>= %s %s)", a.T, oa), mk(SBool, "(< %s %s)", a.T, e.st.Alloc(e.x))), nil}
	case "str_prefix", "hasPrefix":
		a := e.Tr(x.Args[0]).T
		b := e.Tr(x.Args[1]).T
		return TV{e.x.strPrefix(e, a, b), nil}
	case "str_concat", "concat":
		a := e.Tr(x.Args[0]).T
		b := e.Tr(x.Args[1]).T
		return TV{e.x.strConcat(e, a, b), types.Typ[types.String]}
	case "tag":
		a := e.Tr(x.Args[0])
		return TV{IfcTag(a.T), nil}
	case "isnil":
		a := e.Tr(x.Args[0])
		switch a.T.Sort {
		case SIfc:
			return TV{Eq(a.T, nilIfc), nil}
		case SStr:
			return TV{Eq(a.T, Term{"bytes_nil", SStr}), nil}
		case SInt:
			return TV{Eq(a.T, IntLit(0)), nil}
		}
		if isSliceSort(a.T.Sort) {
			return TV{Eq(SlLen(a.T), IntLit(0)), nil}
		}
	case "alloc":
		return TV{e.st.Alloc(e.x), nil}
	case "nonnil":
		a := e.Tr(x.Args[0])
		return TV{Ite(Eq(a.T, Term{"bytes_nil", SStr}), Term{"str_empty", SStr}, a.T), a.Ty}
	case "str_drop", "drop":
		a := e.Tr(x.Args[0])
		n := e.Tr(x.Args[1])
		t := mk(SStr, "(str_drop %s %s)", a.T, n.T)
		e.fact(mk(SBool, "(= (str_len %s) (- (str_len %s) %s))", t, a.T, n.T))
		return TV{t, a.Ty}
	case "hastype", "cast":
		a := e.Tr(x.Args[0])
		if a.T.Sort != SIfc || x.Args[1].Kind != EStr {
			sfail("%s(e, \"Type\") needs an interface value and a type name", x.Name)
		}
		pt := e.x.parseSpecTypeIn(x.Args[1].Name, e.specPkg)
		if pt.ty == nil {
			sfail("%s: unknown type %s", x.Name, x.Args[1].Name)
		}
		if x.Name == "hastype" {
			return TV{Eq(IfcTag(a.T), e.x.typeTag(pt.ty)), nil}
		}
		if _, isPtr := pt.ty.Underlying().(*types.Pointer); !isPtr {
			sfail("cast: only pointer payloads are supported")
		}
		return TV{IfcRef(a.T), pt.ty}
	case "sprintf":
		// sprintf("format", a, b...): the same uninterpreted function the code's fmt.Sprintf maps to
		if len(x.Args) < 1 || x.Args[0].Kind != EStr {
			sfail("sprintf needs a literal format")
		}
		format := x.Args[0].Name
		var ts []Term
		var sorts []Sort
		for _, a := range x.Args[1:] {
			t := e.Tr(a).T
			ts = append(ts, t)
			sorts = append(sorts, t.Sort)
		}
		name := "sprintf_" + sanitize(truncate(format, 24)) + "_" + shortHash(format)
		e.x.b.DeclFun(name, sorts, SStr)
		return TV{App(SStr, name, ts...), types.Typ[types.String]}
	case "mapof":
		m := e.Tr(x.Args[0])
		return TV{e.mapValue(m), nil}
	case "deref":
		a := e.Tr(x.Args[0])
		pt, ok := types.Unalias(a.Ty).Underlying().(*types.Pointer)
		if !ok {
			sfail("deref of non-pointer %s", x.Args[0])
		}
		e.cands.addRef(a.T)
		cs := ArraySort(SInt, e.x.tm.SortOf(pt.Elem()))
		v := Select(e.st.Heap(e.x, e.x.cellHeapName(pt.Elem()), cs), a.T)
		e.x.wfLoaded(e, v, pt.Elem(), Not(Eq(a.T, IntLit(0))))
		ty := pt.Elem()
		return TV{v, ty}
	case "$loopframe":
		r := e.Tr(x.Args[0]).T
		e.cands.addRef(r)
		hyp := []Term{mk(SBool, "(<= 1 %s)", r), mk(SBool, "(< %s %s)", r, e.vars["$allocpre"].T)}
		for i := 0; ; i++ {
			ex, ok := e.vars[fmt.Sprintf("$excl%d", i)]
			if !ok {
				break
			}
			hyp = append(hyp, Not(Eq(r, ex.T)))
		}
		return TV{Implies(And(hyp...), Eq(Select(e.vars["$cur"].T, r), Select(e.vars["$pre"].T, r))), nil}
	case "$exhausted":
		k := e.Tr(x.Args[0]).T
		// keys present when the range started and still present are visited before the range ends
		return TV{Implies(And(Not(e.vars["$ok"].T), Select(e.vars["$has"].T, k), Select(e.vars["$hasentry"].T, k)), Select(e.vars["$vis"].T, k)), nil}
	case "visited":
		k := e.Tr(x.Args[0]).T
		v, ok := e.vars["$visited"]
		if !ok {
			sfail("visited(k) used outside a map-range loop invariant")
		}
		e.cands.addKey(k)
		return TV{Select(v.T, k), nil}
	case "$appended":
		j := e.Tr(x.Args[0]).T
		r, s, t := e.vars["$r"].T, e.vars["$s"].T, e.vars["$t"].T
		return TV{And(
			Implies(And(mk(SBool, "(<= 0 %s)", j), mk(SBool, "(< %s %s)", j, SlLen(s))), Eq(Select(SlElems(r), j), Select(SlElems(s), j))),
			Implies(And(mk(SBool, "(<= %s %s)", SlLen(s), j), mk(SBool, "(< %s %s)", j, SlLen(r))), Eq(Select(SlElems(r), j), Select(SlElems(t), mk(SInt, "(- %s %s)", j, SlLen(s)))))), nil}
	case "$appended2":
		// the same fact, indexed from the appended slice (so that a term t[j] leads to its place in r)
		j := e.Tr(x.Args[0]).T
		r, s, t := e.vars["$r"].T, e.vars["$s"].T, e.vars["$t"].T
		return TV{Implies(And(mk(SBool, "(<= 0 %s)", j), mk(SBool, "(< %s %s)", j, SlLen(t))), Eq(Select(SlElems(r), mk(SInt, "(+ %s %s)", SlLen(s), j)), Select(SlElems(t), j))), nil}
	case "sz":
		m := e.Tr(x.Args[0])
		mv := e.mapValue(m)
		e.x.usesSz = true
		t := e.x.szTerm(mv)
		e.fact(szBound(t))
		if e.szMaps != nil {
			(*e.szMaps)[mv.S] = mv
		}
		return TV{t, nil}
	case "int", "uint64", "int64", "uint32", "uint":
		// conversions are the identity on mathematical integers
		return TV{e.Tr(x.Args[0]).T, nil}
	}
	sf, ok := e.x.db.Specs[x.Name]
	if !ok {
		sfail("unknown function %s", x.Name)
	}
	if len(sf.Params) != len(x.Args) {
		sfail("%s expects %d arguments", x.Name, len(sf.Params))
	}
	args := make([]TV, len(x.Args))
	for i, a := range x.Args {
		args[i] = e.Tr(a)
		pt := e.x.parseSpecTypeIn(sf.Params[i].Type, sf.PkgPath)
		if pt.ty != nil {
			if b, isb := args[i].Ty.(*types.Basic); args[i].Ty == nil || (isb && b.Kind() == types.UntypedNil) {
				args[i].Ty = pt.ty
			}
		}
		if args[i].T.Sort != pt.sort {
			sfail("argument %d of %s: sort %s, expected %s", i, x.Name, args[i].T.Sort, pt.sort)
		}
	}
	if sf.Body == nil || sf.Rec {
		return e.x.applyUninterp(e, sf, args)
	}
	if sf.IsPred && !e.canonQ && e.x.con != nil && e.x.con.Opaque[sf.Name] {
		// opaque predicate: the closed formula is named by a propositional constant; two occurrences
		// over the same state terms get the same constant, nothing else is known about it
		c := *e
		c.canonQ = true
		c.cands = nil
		c.facts = nil
		c.sink = e.x.b.child()
		vars := map[string]TV{}
		for i, p := range sf.Params {
			a := c.Tr(x.Args[i]) // canonical (unshared) form of the argument
			a.Ty = args[i].Ty
			vars[p.Name] = a
		}
		cn := c.with(vars)
		cn.depth = e.depth + 1
		cn.specPkg = sf.PkgPath
		body := cn.Bool(sf.Body)
		name := "opq_" + sf.Name + "_" + shortHash(e.x.expandDefs(body.S))
		e.x.b.DeclFun(name, nil, SBool)
		return TV{Term{name, SBool}, nil}
	}
	if e.depth > 40 {
		sfail("spec function expansion too deep at %s", x.Name)
	}
	vars := map[string]TV{}
	for i, p := range sf.Params {
		vars[p.Name] = args[i]
	}
	n := e.with(vars)
	n.depth = e.depth + 1
	// skolems created inside the expansion are named after the expansion path: two predicates whose
	// bodies have a quantifier at the same text position must not share a skolem constant
	n.skTag = fmt.Sprintf("%s_%s%d", e.skTag, sf.Name, x.Pos)
	n.specPkg = sf.PkgPath
	r := n.Tr(sf.Body)
	rt := e.x.parseSpecTypeIn(sf.Ret, sf.PkgPath)
	if r.T.Sort != rt.sort {
		sfail("spec function %s: body has sort %s, declared %s", sf.Name, r.T.Sort, rt.sort)
	}
	if r.Ty == nil {
		r.Ty = rt.ty
		if isInteger2(rt.ty) || rt.sort == SBool {
			r.Ty = nil
		}
	}
	return r
}

func isInteger2(t types.Type) bool { return t != nil && isInteger(t) }

type quantUse struct {
	idx, key, ref bool
	offsets       map[int]bool
}

// scanUse records how variable v is used inside x.
func scanUse(x *Expr, v string, u *quantUse, db *ContractDB, depth int) {
	if x == nil {
		return
	}
	mentions := func(y *Expr) bool { return mentionsVar(y, v) }
	switch x.Kind {
	case EIndex:
		if mentions(x.Args[1]) {
			u.idx = true // also covers map keys: decided by sort at instantiation
			u.key = true
			if x.Args[1].Kind == EBinary && (x.Args[1].Name == "+" || x.Args[1].Name == "-") && x.Args[1].Args[1].Kind == EInt && x.Args[1].Args[0].Kind == EIdent {
				var k int
				fmt.Sscanf(x.Args[1].Args[1].Name, "%d", &k)
				if x.Args[1].Name == "-" {
					k = -k
				}
				u.offsets[k] = true
			}
		}
	case EBinary:
		if x.Name == "in" && mentions(x.Args[0]) {
			u.key = true
		}
	case EField:
		if x.Args[0].Kind == EIdent && x.Args[0].Name == v {
			u.ref = true
		}
	case ECall:
		if db != nil && depth < 6 {
			if sf, ok := db.Specs[x.Name]; ok && sf.Body != nil && !sf.Rec {
				for i, a := range x.Args {
					if i < len(sf.Params) && a.Kind == EIdent && a.Name == v {
						scanUse(sf.Body, sf.Params[i].Name, u, db, depth+1)
					}
				}
			} else if ok {
				// uninterpreted / recursive: any argument that is the variable counts as a key-like use
				for _, a := range x.Args {
					if a.Kind == EIdent && a.Name == v {
						u.key = true
						u.idx = true
					}
				}
			}
		}
	}
	for _, a := range x.Args {
		scanUse(a, v, u, db, depth)
	}
}

func mentionsVar(x *Expr, v string) bool {
	if x == nil {
		return false
	}
	if x.Kind == EIdent && x.Name == v {
		return true
	}
	if x.Kind == EQuant {
		for _, q := range x.Vars {
			if q.Name == v {
				return false
			}
		}
	}
	for _, a := range x.Args {
		if mentionsVar(a, v) {
			return true
		}
	}
	return false
}

const maxInstances = 1500

var debugInst = os.Getenv("GOVC_DEBUG_INST") != ""

func (e *Env) quant(x *Expr) TV {
	// hybrid mode: quantifiers stay with the solver, except hypotheses with a quantifier alternation
	// inside (each instance creates a skolem term that re-triggers the hypothesis: matching loop),
	// which are instantiated by the generator under its generation limits
	instSide := (x.Name == "forall") == e.assume
	if e.canonQ && (e.forceNative || e.qdepth > 0 || !(e.hybrid && (!instSide || (containsQuant(x.Args[0], e.x.db) && !e.hybridAll)))) {
		vars := map[string]TV{}
		for k, v := range e.vars {
			vars[k] = v
		}
		var decls []string
		for i, q := range x.Vars {
			pt := e.x.parseSpecTypeIn(q.Type, e.specPkg)
			name := fmt.Sprintf("?q%d_%d", e.qdepth, i)
			ty := pt.ty
			if isInteger2(ty) {
				ty = nil
			}
			vars[q.Name] = TV{Term{name, pt.sort}, ty}
			decls = append(decls, fmt.Sprintf("(%s %s)", name, pt.sort))
		}
		n := e.with(vars)
		n.qdepth = e.qdepth + 1
		var local []Term
		if e.facts != nil {
			n.facts = &local
		}
		body := n.Bool(x.Args[0])
		// facts about terms that mention the bound variables are embedded in the body (they are
		// valid for every value); the others go to the enclosing level
		var inner []Term
		seen := map[string]bool{}
		for _, f := range local {
			if seen[f.S] {
				continue
			}
			seen[f.S] = true
			if strings.Contains(f.S, fmt.Sprintf("?q%d_", e.qdepth)) {
				inner = append(inner, f)
			} else {
				e.fact(f)
			}
		}
		if len(inner) > 0 && e.forceNative {
			// mixed polarity: the facts (valid for every value of the bound variables) can neither be
			// conjoined nor assumed inside; they are hoisted as a universally quantified assumption
			e.fact(Term{fmt.Sprintf("(forall (%s) %s)", strings.Join(decls, " "), And(inner...).S), SBool})
		} else if len(inner) > 0 {
			if !e.assume {
				// goal side: the facts are valid for every value of the bound variables, so they may be
				// assumed under a universal and under an existential alike
				body = Implies(And(inner...), body)
			} else {
				body = And(append(inner, body)...)
			}
		}
		if len(x.Trig) > 0 {
			var pats []string
			tn := *n
			tn.facts = nil
			for _, t := range x.Trig {
				pats = append(pats, tn.Tr(t).T.S)
			}
			return TV{Term{fmt.Sprintf("(%s (%s) (! %s :pattern (%s)))", x.Name, strings.Join(decls, " "), body.S, strings.Join(pats, " ")), SBool}, nil}
		}
		return TV{Term{fmt.Sprintf("(%s (%s) %s)", x.Name, strings.Join(decls, " "), body.S), SBool}, nil}
	}
	universal := x.Name == "forall"
	skolem := universal != e.assume // forall in goal, exists in hypothesis
	body := x.Args[0]
	if skolem {
		vars := map[string]TV{}
		for k, v := range e.vars {
			vars[k] = v
		}
		for _, q := range x.Vars {
			pt := e.x.parseSpecTypeIn(q.Type, e.specPkg)
			name := fmt.Sprintf("sk_%s_%d_%s_%s", e.skTag, x.Pos, q.Name, shortHash(e.instPath))
			t := e.sink.FreshNamed(name, pt.sort)
			ty := pt.ty
			if isInteger2(ty) {
				ty = nil
			}
			vars[q.Name] = TV{t, ty}
		}
		return TV{e.with(vars).Bool(body), nil}
	}
	// instantiate
	if e.hasHypQ != nil {
		*e.hasHypQ = true
	}
	type cset struct {
		q     QVar
		pt    specType
		terms []string
	}
	var sets []cset
	total := 1
	nested := containsQuant(body, e.x.db)
	for _, q := range x.Vars {
		pt := e.x.parseSpecTypeIn(q.Type, e.specPkg)
		u := &quantUse{offsets: map[int]bool{}}
		scanUse(body, q.Name, u, e.x.db, 0)
		cs := map[string]bool{}
		if e.useCand && e.cands != nil {
			switch {
			case q.Type == "ref" || (pt.sort == SInt && u.ref && pt.ty != nil && !isInteger(pt.ty)):
				for r := range e.cands.refs {
					cs[r] = true
				}
			case pt.sort == SInt:
				want := e.arrayTagsFor(body, q.Name)
				for r := range e.cands.idx {
					if hasHeapTag(want) {
						if tg := e.cands.tags[r]; hasHeapTag(tg) {
							// both the hypothesis' array and the candidate's array are read from known heaps:
							// keep the candidate only if they can be the same array
							hit := false
							for s := range tg {
								if want[s] {
									hit = true
									break
								}
							}
							if !hit {
								continue
							}
						}
					}
					cs[r] = true
					for off := range u.offsets {
						if off != 0 {
							cs[fmt.Sprintf("(- %s %d)", r, off)] = true
						}
					}
				}
				for r := range e.cands.ints {
					cs[r] = true
				}
			default:
				for r := range e.cands.keys[pt.sort] {
					cs[r] = true
				}
			}
		}
		var ts []string
		for c := range cs {
			// hypotheses with nested quantifiers create skolems when instantiated; they are only
			// instantiated at terms that are not themselves such skolems (generation limit)
			if nested && (strings.Contains(c, "sk_h") || strings.Contains(c, "g1_")) {
				continue
			}
			ts = append(ts, c)
		}
		sort.Slice(ts, func(a, b int) bool {
			pa, pb := candPriority(ts[a]), candPriority(ts[b])
			if pa != pb {
				return pa < pb
			}
			return ts[a] < ts[b]
		})
		if debugInst && e.useCand && pt.sort == SInt {
			var all []string
			for r := range e.cands.idx {
				all = append(all, fmt.Sprintf("%s%v", r, e.cands.tags[r]))
			}
			fmt.Fprintf(os.Stderr, "  ALLIDX want=%v %v\n", e.arrayTagsFor(body, q.Name), all)
		}
		if debugInst && e.useCand {
			fmt.Fprintf(os.Stderr, "INST %s var %s: %d cands %v (from %s)\n", e.skTag, q.Name, len(ts), ts, truncate(body.String(), 80))
		}
		sets = append(sets, cset{q, pt, ts})
		total *= len(ts)
	}
	if total == 0 {
		// phase 1 or no candidates: still translate the body once with fresh dummies to
		// collect the terms it mentions
		if !e.useCand {
			vars := map[string]TV{}
			for k, v := range e.vars {
				vars[k] = v
			}
			for _, s := range sets {
				ty := s.pt.ty
				if isInteger2(ty) {
					ty = nil
				}
				vars[s.q.Name] = TV{e.sink.FreshNamed("dummy_"+s.q.Name+"_"+string(s.pt.sort), s.pt.sort), ty}
			}
			n := e.with(vars)
			n.cands = nil // do not register terms mentioning the dummy
			n.Bool(body)
		}
		if universal {
			return TV{tTrue, nil}
		}
		return TV{tFalse, nil}
	}
	if total > maxInstances {
		// keep a deterministic prefix
		for total > maxInstances {
			// shrink the largest set
			bi := 0
			for i := range sets {
				if len(sets[i].terms) > len(sets[bi].terms) {
					bi = i
				}
			}
			total /= len(sets[bi].terms)
			sets[bi].terms = sets[bi].terms[:len(sets[bi].terms)-1]
			total *= len(sets[bi].terms)
		}
	}
	var parts []Term
	idxs := make([]int, len(sets))
	for {
		vars := map[string]TV{}
		for k, v := range e.vars {
			vars[k] = v
		}
		nsk := 0
		for i, s := range sets {
			ty := s.pt.ty
			if isInteger2(ty) {
				ty = nil
			}
			vars[s.q.Name] = TV{Term{s.terms[idxs[i]], s.pt.sort}, ty}
			if strings.Contains(s.terms[idxs[i]], "sk_h") || strings.Contains(s.terms[idxs[i]], "g1_") {
				nsk++
			}
		}
		// tuples of a multi-variable hypothesis use at most one hypothesis-skolem (generation limit)
		if nsk <= 1 || len(sets) == 1 {
			n := e.with(vars)
			if e.inst != nil {
				*e.inst++
			}
			ip := e.instPath
			for i, s := range sets {
				ip += "|" + s.terms[idxs[i]]
			}
			n.instPath = ip
			parts = append(parts, n.Bool(body))
		}
		// next tuple
		k := len(sets) - 1
		for k >= 0 {
			idxs[k]++
			if idxs[k] < len(sets[k].terms) {
				break
			}
			idxs[k] = 0
			k--
		}
		if k < 0 {
			break
		}
	}
	if universal {
		return TV{And(parts...), nil}
	}
	return TV{Or(parts...), nil}
}

// FreshNamed declares a constant with a fixed name (idempotent).
func (b *Builder) FreshNamed(name string, sort Sort) Term {
	name = sanitize(name)
	if _, ok := b.consts[name]; !ok {
		b.lines = append(b.lines, fmt.Sprintf("(declare-const %s %s)", name, sort))
		b.consts[name] = sort
	}
	return Term{name, sort}
}

// lookupField finds a (possibly promoted, possibly unexported) field; specs may name unexported
// fields of other packages.
func lookupField(t types.Type, pkg *types.Package, name string) (types.Object, []int, bool) {
	obj, index, ind := types.LookupFieldOrMethod(t, true, pkg, name)
	if obj != nil {
		return obj, index, ind
	}
	n, _ := namedStruct(t)
	if n != nil && n.Obj().Pkg() != nil {
		obj, index, ind = types.LookupFieldOrMethod(t, true, n.Obj().Pkg(), name)
	}
	return obj, index, ind
}

func shortHash(s string) string {
	if s == "" {
		return "0"
	}
	var h uint64 = 1469598103934665603
	for i := 0; i < len(s); i++ {
		h ^= uint64(s[i])
		h *= 1099511628211
	}
	return fmt.Sprintf("%x", h&0xffffffffff)
}

// conj is one conjunct of a spec formula after expanding predicates and splitting on &&.
type conj struct {
	expr *Expr
	env  *Env
}

// conjuncts splits e (evaluated in env) into its top-level conjuncts, looking through predicate calls.
func conjuncts(e *Expr, env *Env, depth int) []conj {
	if depth < 12 {
		switch e.Kind {
		case EBinary:
			if e.Name == "&&" {
				return append(conjuncts(e.Args[0], env, depth+1), conjuncts(e.Args[1], env, depth+1)...)
			}
		case ECall:
			if sf, ok := env.x.db.Specs[e.Name]; ok && sf.Body != nil && !sf.Rec && sf.IsPred && len(sf.Params) == len(e.Args) && containsQuant(sf.Body, env.x.db) &&
				!(env.x.con != nil && env.x.con.Opaque[sf.Name]) {
				var out []conj
				func() {
					defer func() {
						if r := recover(); r != nil {
							if _, ok := r.(specErr); ok {
								out = nil
								return
							}
							panic(r)
						}
					}()
					c := *env
					c.canonQ = true
					c.cands = nil
					c.facts = nil
					vars := map[string]TV{}
					for i, p := range sf.Params {
						a := c.Tr(e.Args[i])
						pt := env.x.parseSpecTypeIn(p.Type, sf.PkgPath)
						if pt.ty != nil {
							if b, isb := a.Ty.(*types.Basic); a.Ty == nil || (isb && b.Kind() == types.UntypedNil) {
								a.Ty = pt.ty
							}
						}
						vars[p.Name] = a
					}
					n := env.with(vars)
					n.specPkg = sf.PkgPath
					out = conjuncts(sf.Body, n, depth+1)
				}()
				if out != nil {
					return out
				}
			}
		}
	}
	return []conj{{e, env}}
}

// canon renders a conjunct in a polarity-independent closed form.
func canon(c conj) (s string, ok bool) {
	defer func() {
		if r := recover(); r != nil {
			if _, isSpec := r.(specErr); isSpec {
				ok = false
				return
			}
			panic(r)
		}
	}()
	n := *c.env
	n.canonQ = true
	n.cands = nil
	n.facts = nil
	n.sink = c.env.x.b.child()
	return c.env.x.expandDefs(n.Bool(c.expr).S), true
}

// expandDefs replaces the names of the main builder's define-funs by their bodies (bounded), so that
// two syntactically different ways of naming the same term have the same canonical form.
func (x *Exec) expandDefs(s string) string {
	for round := 0; round < 6 && len(s) < 60000; round++ {
		changed := false
		s = nameRe.ReplaceAllStringFunc(s, func(n string) string {
			if d, ok := x.b.defs[n]; ok && len(d) < 2000 {
				changed = true
				return d
			}
			return n
		})
		if !changed {
			break
		}
	}
	return s
}

// arrayTagsFor: the symbols of the arrays that variable v indexes inside body (translated in the
// current environment; arrays whose expression depends on bound variables are skipped).
func (e *Env) arrayTagsFor(body *Expr, v string) map[string]bool {
	out := map[string]bool{}
	if e.cands == nil || e.cands.symf == nil {
		return out
	}
	var arrs []*Expr
	collectIndexed(body, v, &arrs, e.x.db, 0, nil)
	for _, a := range arrs {
		func() {
			defer func() {
				if r := recover(); r != nil {
					if _, ok := r.(specErr); ok {
						return
					}
					panic(r)
				}
			}()
			n := *e
			n.cands = nil
			n.facts = nil
			n.sink = e.x.b.child()
			n.noShare = true
			tv := n.Tr(a)
			k := len(out)
			e.cands.symf(tv.T.S, out)
			if len(out) == k {
				out["sort:"+string(tv.T.Sort)] = true
			}
		}()
	}
	return out
}

// collectIndexed gathers the array expressions a such that a[...v...] occurs in x (looking through
// non-recursive spec functions; arguments are substituted textually only for identifiers).
func collectIndexed(x *Expr, v string, out *[]*Expr, db *ContractDB, depth int, subst map[string]*Expr) {
	if x == nil {
		return
	}
	if x.Kind == EIndex && mentionsVar(x.Args[1], v) {
		*out = append(*out, substExpr(x.Args[0], subst))
	}
	if x.Kind == ECall && db != nil && depth < 5 {
		if sf, ok := db.Specs[x.Name]; ok && sf.Body != nil && !sf.Rec && len(sf.Params) == len(x.Args) {
			for i, a := range x.Args {
				if a.Kind == EIdent && a.Name == v {
					ns := map[string]*Expr{}
					for j, p := range sf.Params {
						if j != i {
							ns[p.Name] = substExpr(x.Args[j], subst)
						}
					}
					collectIndexed(sf.Body, sf.Params[i].Name, out, db, depth+1, ns)
				}
			}
		}
	}
	for _, a := range x.Args {
		collectIndexed(a, v, out, db, depth, subst)
	}
}

func substExpr(x *Expr, subst map[string]*Expr) *Expr {
	if x == nil || len(subst) == 0 {
		return x
	}
	if x.Kind == EIdent {
		if r, ok := subst[x.Name]; ok {
			return r
		}
		return x
	}
	n := *x
	n.Args = make([]*Expr, len(x.Args))
	for i, a := range x.Args {
		n.Args[i] = substExpr(a, subst)
	}
	return &n
}

// candPriority orders instantiation candidates: goal skolems first, then values computed by the code,
// then other ground terms, hypothesis skolems last (they are dropped first when a cap is hit).
func candPriority(c string) int {
	switch {
	case strings.Contains(c, "sk_h") || strings.Contains(c, "g1_"):
		return 3
	case strings.HasPrefix(c, "sk_g"):
		return 0
	case strings.HasPrefix(c, "r_t") || strings.HasPrefix(c, "p_"):
		return 1
	}
	return 2
}

func hasHeapTag(m map[string]bool) bool {
	for s := range m {
		if strings.HasPrefix(s, "H_") || strings.HasPrefix(s, "M_") || strings.HasPrefix(s, "Cell_") || strings.HasPrefix(s, "G_") {
			return true
		}
	}
	return false
}
