package main

// Symbolic executor over go/ssa (NaiveForm): produces proof obligations for one
// function under contract. Loops are cut at their headers with the contract's
// invariants; the remaining DAG is executed forward with ite-merging at joins.

import (
	"fmt"
	"go/ast"
	"go/constant"
	"go/token"
	"go/types"
	"regexp"
	"sort"
	"strings"
	"sync"

	"golang.org/x/tools/go/ssa"
)

type State struct {
	reach  Term
	locals map[*ssa.Alloc]Term
	heaps  map[string]Term
	hyps   map[int]bool // quantified hypotheses in scope on the paths leading here
}

func (s *State) clone() *State {
	n := &State{reach: s.reach, locals: make(map[*ssa.Alloc]Term, len(s.locals)), heaps: make(map[string]Term, len(s.heaps)), hyps: make(map[int]bool, len(s.hyps))}
	for k := range s.hyps {
		n.hyps[k] = true
	}
	for k, v := range s.locals {
		n.locals[k] = v
	}
	for k, v := range s.heaps {
		n.heaps[k] = v
	}
	return n
}

func (s *State) Heap(x *Exec, name string, sort Sort) Term {
	if t, ok := s.heaps[name]; ok {
		return t
	}
	return x.initHeap(name, sort)
}

func (s *State) Alloc(x *Exec) Term { return s.Heap(x, "$alloc", SInt) }

type LVKind int

const (
	LVLocal LVKind = iota
	LVField
	LVCell
	LVElem // element of a slice value (read-only)
	LVGlobal
)

type pathStep struct {
	field int        // >=0: struct field index
	idx   Term       // else: array index
	ty    types.Type // type of the container being stepped into
}

type LValue struct {
	kind  LVKind
	alloc *ssa.Alloc   // LVLocal
	base  Term         // LVField / LVCell: reference; LVElem: slice value
	named *types.Named // LVField
	fld   *types.Var   // LVField
	idx   Term         // LVElem
	ty    types.Type   // type of the root location's content
	path  []pathStep
	glob  *ssa.Global
}

type Val struct {
	T    Term
	LV   *LValue
	Fn   *ssa.Function    // static function value
	Clo  *ssa.MakeClosure // closure value
	Bind []Val            // closure bindings
	Tup  []Val            // tuple (call results)
	prov *ssa.Alloc       // slice value loaded from this local (for element writes)
}

type Obligation struct {
	Name     string
	Kind     string
	Tags     []string
	Func     string
	mark     int
	guard    Term
	ground   *Term // ground goal
	expr     *Expr // or a spec goal
	env      *Env
	Src      string
	Pos      string
	mustSat  bool // cover obligations
	extraHyp []qhyp
	hyps     map[int]bool
}

// addQhyp registers a quantified hypothesis in the scope of state st.
func (x *Exec) addQhyp(st *State, q qhyp) {
	q.id = len(x.qhyps)
	x.qhyps = append(x.qhyps, q)
	if st != nil {
		if st.hyps == nil {
			st.hyps = map[int]bool{}
		}
		st.hyps[q.id] = true
	}
}

func scopeOf(st *State) map[int]bool {
	m := map[int]bool{}
	if st != nil {
		for k := range st.hyps {
			m[k] = true
		}
	}
	return m
}

type qhyp struct {
	id    int
	mark  int
	guard Term
	expr  *Expr
	env   *Env
	src   string
}

type Exec struct {
	prog           *ssa.Program
	pkg            *ssa.Package
	fn             *ssa.Function
	b              *Builder
	tm             *TypeMap
	db             *ContractDB
	ld             *Loader
	con            *Contract
	cands          *Cands
	cur            *State
	entry          *State
	obls           []*Obligation
	qhyps          []qhyp
	initHeaps      map[string]Term
	counters       map[string]int
	assumptions    map[string]bool // listed in evidence
	params         map[string]TV
	results        []resultVar
	unsupported    []string
	fnKey          string
	ghostLocals    map[string]TV
	uninterpApps   map[string][][]TV
	abstracted     bool
	checked        bool // arith checked
	tagCounter     int
	typeTags       map[string]int
	curFrame       *Frame
	usesSz         bool
	sprintfNames map[string]string
	activeChild *Builder
	callCount      map[string]int
	closures       map[string]Val // closure token -> closure value (function + bindings)
	closureOrder   []string
	shiftAxiom     map[string]bool
	tagTypes       map[int]types.Type
	ifaceAsserts []ifaceAssert // executed interface-to-interface assertions (facts are completed when a new dynamic type becomes known)
	fvCells        map[string]TV // captured variables of the closure under proof: cell reference and element type
	callOrd        map[*ssa.Call]int
	callName       map[*ssa.Call]string
	sortCount      int
	rangeEntry     map[*ssa.Range]Term
	rangeOfLoop    map[*ssa.BasicBlock]*ssa.Range
	mu             sync.Mutex
	oblNames       map[string]int
	replayStrTerms []string
	inRecover      bool
	strPrefixOf    map[string]Term
	modelExtra     []string
}

type resultVar struct {
	name string
	ty   types.Type
}

type Frame struct {
	fn       *ssa.Function
	regs     map[ssa.Value]Val
	prefix   string
	depth    int
	top      bool
	exits    []exitState
	loops    map[*ssa.BasicBlock]*loopInfo
	out      map[*ssa.BasicBlock]*State
	edge     map[[2]int]Term
	parent   *Frame
	deferred []deferRec
	panics   []panicState
}

type deferRec struct {
	guard Term // reach of the registration point
	ins  *ssa.Defer
	fn   Val
	args []Val
}

type panicState struct {
	st   *State
	pos  token.Pos
	what string
}

type exitState struct {
	st      *State
	results []Term
	pos     token.Pos
}

type loopInfo struct {
	header  *ssa.BasicBlock
	body    map[*ssa.BasicBlock]bool
	ordinal int
	spec    *LoopSpec
	minPos  token.Pos
	frames  []loopFrame
}

func (x *Exec) initHeap(name string, sort Sort) Term {
	if t, ok := x.initHeaps[name]; ok {
		return t
	}
	n := sanitize(name) + "@0"
	n = strings.ReplaceAll(n, "@", "_at")
	x.b.DeclFun(n, nil, sort)
	t := Term{n, sort}
	x.initHeaps[name] = t
	if name == "$alloc" {
		x.b.Assert(mk(SBool, "(>= %s 1)", t))
	}
	return t
}

func (x *Exec) pkgTypes() *types.Package { return x.pkg.Pkg }

func (x *Exec) note(a string) { x.assumptions[a] = true }

func (x *Exec) count(kind string) int {
	n := x.counters[kind]
	x.counters[kind] = n + 1
	return n
}

// ---------------------------------------------------------------------------
// assumptions and obligations

func (x *Exec) assume(guard, fact Term) {
	x.b.Assert(Implies(guard, fact))
}

func (x *Exec) newEnv(vars map[string]TV, st, old *State) *Env {
	return &Env{x: x, sink: x.b, vars: vars, st: st, old: old, cands: x.cands, fnPos: x.fn.Pos()}
}

// assumeSpec adds a spec-level hypothesis. Quantifier-free hypotheses are asserted at once;
// those containing hypothesis-side quantifiers are kept and instantiated per obligation.
func (x *Exec) assumeSpec(guard Term, e *Expr, env *Env, src string) {
	x.assumeSpecIn(x.cur, guard, e, env, src)
}

func (x *Exec) assumeSpecIn(target *State, guard Term, e *Expr, env *Env, src string) {
	if containsQuant(e, x.db) {
		// quantifier-free conjuncts are asserted at once; only the quantified ones are kept for
		// per-obligation instantiation
		for _, c := range conjuncts(e, env, 0) {
			if containsQuant(c.expr, x.db) {
				x.addQhyp(target, qhyp{mark: x.b.Mark(), guard: guard, expr: c.expr, env: c.env, src: src})
			} else {
				x.assumeSpecIn(target, guard, c.expr, c.env, src)
			}
		}
		return
	}
	var facts []Term
	n := *env
	n.assume = true
	n.facts = &facts
	n.sink = x.b
	t := n.Bool(e)
	for _, f := range facts {
		x.b.Assert(f)
	}
	x.b.Comment("assume " + src)
	x.assume(guard, t)
}

func (x *Exec) obligeGround(f *Frame, kind string, tags []string, guard, goal Term, src string, pos token.Pos) {
	if goal.S == "true" {
		// trivially discharged obligations are still counted
	}
	k := x.count(f.prefix + kind)
	g := goal
	ob := &Obligation{Name: fmt.Sprintf("%s/%s%s#%d", x.fnKeyShort(), f.prefix, kind, k), Kind: kind, Tags: tags, Func: x.fnKey,
		mark: x.b.Mark(), guard: guard, ground: &g, Src: src, Pos: x.posStr(pos), hyps: scopeOf(x.cur)}
	x.addObl(ob)
}

func (x *Exec) obligeSpec(f *Frame, kind string, cl Clause, guard Term, env *Env, label string) {
	name := label
	if name == "" {
		if cl.Label != "" {
			name = kind + ":" + cl.Label
		} else {
			name = fmt.Sprintf("%s#%d", kind, x.count(f.prefix+kind))
		}
	}
	ob := &Obligation{Name: fmt.Sprintf("%s/%s%s", x.fnKeyShort(), f.prefix, name), Kind: kind, Tags: cl.Tags, Func: x.fnKey,
		mark: x.b.Mark(), guard: guard, expr: cl.Expr, env: env, Src: cl.Src, Pos: fmt.Sprintf("%s:%d", shortPath(cl.File), cl.Line), hyps: scopeOf(env.st)}
	x.addObl(ob)
}

// addObl keeps obligation names unique (duplicated tail blocks produce the same base name once per path).
func (x *Exec) addObl(ob *Obligation) {
	if x.oblNames == nil {
		x.oblNames = map[string]int{}
	}
	n := x.oblNames[ob.Name]
	x.oblNames[ob.Name] = n + 1
	if n > 0 {
		ob.Name = fmt.Sprintf("%s~%d", ob.Name, n)
	}
	x.obls = append(x.obls, ob)
}

func shortPath(p string) string {
	p = strings.TrimPrefix(p, "/repo/")
	return p
}

func (x *Exec) fnKeyShort() string {
	i := strings.Index(x.fnKey, "::")
	pk := x.fnKey[:i]
	pk = strings.TrimPrefix(pk, modulePath+"/")
	return pk + "." + x.fnKey[i+2:]
}

func (x *Exec) posStr(p token.Pos) string {
	if !p.IsValid() {
		return ""
	}
	ps := x.prog.Fset.Position(p)
	return fmt.Sprintf("%s:%d", shortPath(ps.Filename), ps.Line)
}

// ---------------------------------------------------------------------------
// type facts

func (x *Exec) typeFact(v Term, ty types.Type, alloc Term) Term {
	if ty == nil {
		return tTrue
	}
	ty = types.Unalias(ty)
	switch u := ty.Underlying().(type) {
	case *types.Basic:
		if u.Info()&types.IsInteger != 0 {
			return rangeFact(v, ty)
		}
		if u.Info()&types.IsString != 0 {
			return And(mk(SBool, "(>= (str_len %s) 0)", v), mk(SBool, "(<= (str_len %s) 281474976710656)", v), Not(Eq(v, Term{"bytes_nil", SStr})),
				Implies(mk(SBool, "(= (str_len %s) 0)", v), Eq(v, Term{"str_empty", SStr})))
		}
	case *types.Pointer, *types.Map, *types.Chan:
		return And(mk(SBool, "(<= 0 %s)", v), mk(SBool, "(< %s %s)", v, alloc))
	case *types.Signature:
		return mk(SBool, "(<= 0 %s)", v)
	case *types.Slice:
		if isByteSlice(ty) {
			return And(mk(SBool, "(>= (str_len %s) 0)", v), mk(SBool, "(<= (str_len %s) 281474976710656)", v),
				Implies(mk(SBool, "(= (str_len %s) 0)", v), Or(Eq(v, Term{"str_empty", SStr}), Eq(v, Term{"bytes_nil", SStr}))))
		}
		return And(mk(SBool, "(>= %s 0)", SlLen(v)), mk(SBool, "(<= %s 281474976710656)", SlLen(v)))
	case *types.Interface:
		return And(mk(SBool, "(<= 0 %s)", IfcTag(v)), mk(SBool, "(<= 0 %s)", IfcRef(v)), mk(SBool, "(< %s %s)", IfcRef(v), alloc),
			Implies(Eq(IfcTag(v), IntLit(0)), Eq(IfcRef(v), IntLit(0))))
	case *types.Struct:
		var fs []Term
		for i := 0; i < u.NumFields(); i++ {
			fs = append(fs, x.typeFact(x.tm.StructField(v, ty, i), u.Field(i).Type(), alloc))
		}
		return And(fs...)
	}
	return tTrue
}

// wfLoaded records the well-formedness fact of a value loaded during spec translation.
func (x *Exec) wfLoaded(e *Env, v Term, ty types.Type, cond Term) {
	if ty == nil {
		return
	}
	e.fact(Implies(cond, x.typeFact(v, ty, e.st.Alloc(x))))
}

// ---------------------------------------------------------------------------
// strings

func (x *Exec) strLen(e *Env, s Term) Term {
	t := mk(SInt, "(str_len %s)", s)
	if e != nil {
		e.fact(mk(SBool, "(>= %s 0)", t))
	} else {
		x.b.Assert(mk(SBool, "(>= %s 0)", t))
	}
	return t
}

func (x *Exec) strConcat(e *Env, a, b Term) Term {
	t := mk(SStr, "(str_concat %s %s)", a, b)
	f := And(mk(SBool, "(= (str_len %s) (+ (str_len %s) (str_len %s)))", t, a, b),
		mk(SBool, "(str_prefix %s %s)", t, a), Not(Eq(t, Term{"bytes_nil", SStr})),
		Implies(mk(SBool, "(= (str_len %s) 0)", b), Or(Eq(t, a), Eq(a, Term{"bytes_nil", SStr}))))
	if e != nil {
		e.fact(f)
	} else {
		x.b.Assert(f)
	}
	return t
}

func (x *Exec) strPrefix(e *Env, s, p Term) Term {
	t := mk(SBool, "(str_prefix %s %s)", s, p)
	f := And(Implies(t, mk(SBool, "(>= (str_len %s) (str_len %s))", s, p)), mk(SBool, "(str_prefix %s %s)", s, s),
		Implies(mk(SBool, "(= (str_len %s) 0)", p), t))
	if e != nil {
		e.fact(f)
	} else {
		x.b.Assert(f)
	}
	return t
}

// ---------------------------------------------------------------------------
// heap access helpers

func (x *Exec) fieldHeapName(n *types.Named, f *types.Var) string { return heapName(n, f) }

func (x *Exec) fieldSel(st *State, n *types.Named, f *types.Var, ref Term) Term {
	s := x.tm.SortOf(f.Type())
	h := st.Heap(x, x.fieldHeapName(n, f), ArraySort(SInt, s))
	return Select(h, ref)
}

func (x *Exec) cellHeapName(t types.Type) string { return "Cell_" + typeKey(t) }

func (x *Exec) mapHeapName(mt *types.Map) string {
	return "M_" + typeKey(mt.Key()) + "_" + typeKey(mt.Elem())
}

func (x *Exec) mapSort(mt *types.Map) Sort {
	return MapVSort(x.tm.SortOf(mt.Key()), x.tm.SortOf(mt.Elem()))
}

func (x *Exec) mapSel(st *State, mt *types.Map, ref Term) Term {
	h := st.Heap(x, x.mapHeapName(mt), ArraySort(SInt, x.mapSort(mt)))
	return Select(h, ref)
}

func (x *Exec) mapSet(st *State, mt *types.Map, ref, mv Term) {
	name := x.mapHeapName(mt)
	h := st.Heap(x, name, ArraySort(SInt, x.mapSort(mt)))
	st.heaps[name] = x.b.Def(name, StoreT(h, ref, mv))
}

// fieldStep follows field i of the struct (or pointer to struct) value cur.
func (x *Exec) fieldStep(e *Env, cur TV, i int) TV {
	ty := types.Unalias(cur.Ty)
	if p, ok := ty.Underlying().(*types.Pointer); ok {
		n, s := namedStruct(p.Elem())
		if s == nil {
			sfail("field access through pointer to non-struct %s", ty)
		}
		f := s.Field(i)
		e.cands.addRef(cur.T)
		var v Term
		if n == nil {
			sfail("pointer to unnamed struct")
		}
		v = x.fieldSel(e.st, n, f, cur.T)
		x.wfLoaded(e, v, f.Type(), Not(Eq(cur.T, IntLit(0))))
		return TV{v, f.Type()}
	}
	if s, ok := ty.Underlying().(*types.Struct); ok {
		f := s.Field(i)
		return TV{x.tm.StructField(cur.T, ty, i), f.Type()}
	}
	sfail("field access on %s", ty)
	return TV{}
}

func (x *Exec) ghostLookup(ty types.Type, name string) (*GhostField, string) {
	n, _ := namedStruct(ty)
	if n == nil || n.Obj().Pkg() == nil {
		return nil, ""
	}
	key := n.Obj().Pkg().Path() + "." + n.Obj().Name() + "." + name
	g := x.db.Ghosts[key]
	if g == nil {
		// promoted through embedded pointers
		if _, s := namedStruct(ty); s != nil {
			for i := 0; i < s.NumFields(); i++ {
				if s.Field(i).Embedded() {
					if gg, hn := x.ghostLookup(s.Field(i).Type(), name); gg != nil {
						return gg, hn
					}
				}
			}
		}
		return nil, ""
	}
	return g, "G_" + sanitize(n.Obj().Name()) + "_" + sanitize(name)
}

func (x *Exec) ghostField(e *Env, base TV, name string) (TV, bool) {
	g, hn := x.ghostLookup(base.Ty, name)
	if g == nil {
		return TV{}, false
	}
	// walk embedded pointers down to the declaring struct
	cur := base
	for {
		n, s := namedStruct(cur.Ty)
		if n != nil && n.Obj().Name() == g.Struct && n.Obj().Pkg().Path() == g.PkgPath {
			break
		}
		moved := false
		for i := 0; s != nil && i < s.NumFields(); i++ {
			if s.Field(i).Embedded() {
				if gg, _ := x.ghostLookup(s.Field(i).Type(), name); gg != nil {
					cur = x.fieldStep(e, cur, i)
					moved = true
					break
				}
			}
		}
		if !moved {
			return TV{}, false
		}
	}
	st := x.ghostSort(g)
	h := e.st.Heap(x, hn, ArraySort(SInt, st.sort))
	e.cands.addRef(cur.T)
	v := Select(h, cur.T)
	if isSliceSort(st.sort) {
		// a ghost sequence has a length like any slice value
		e.fact(And(mk(SBool, "(>= %s 0)", SlLen(v)), mk(SBool, "(<= %s 281474976710656)", SlLen(v))))
	}
	return TV{v, st.ty}, true
}

func (x *Exec) ghostSort(g *GhostField) specType {
	st := x.parseSpecTypeIn(g.Type, g.PkgPath)
	if st.ty != nil {
		if mt, ok := st.ty.Underlying().(*types.Map); ok {
			// ghost maps are values, not references
			return specType{x.mapSort(mt), nil}
		}
	}
	return st
}

// ghostAssign performs target := value on the ghost heap of state st.
func (x *Exec) ghostAssign(ga GhostAssign, env *Env) {
	if ga.Target.Kind != EField {
		sfail("ghost assignment target must be obj.ghostfield")
	}
	base := env.Tr(ga.Target.Args[0])
	g, hn := x.ghostLookup(base.Ty, ga.Target.Name)
	if g == nil {
		sfail("no ghost field %s", ga.Target.Name)
	}
	cur := base
	for {
		n, s := namedStruct(cur.Ty)
		if n != nil && n.Obj().Name() == g.Struct && n.Obj().Pkg().Path() == g.PkgPath {
			break
		}
		moved := false
		for i := 0; s != nil && i < s.NumFields(); i++ {
			if s.Field(i).Embedded() {
				if gg, _ := x.ghostLookup(s.Field(i).Type(), ga.Target.Name); gg != nil {
					cur = x.fieldStep(env, cur, i)
					moved = true
					break
				}
			}
		}
		if !moved {
			sfail("ghost field path")
		}
	}
	v := env.Tr(ga.Value)
	st := x.ghostSort(g)
	if v.T.Sort != st.sort {
		sfail("ghost assignment: value sort %s, field sort %s", v.T.Sort, st.sort)
	}
	h := env.st.Heap(x, hn, ArraySort(SInt, st.sort))
	env.st.heaps[hn] = x.b.Def(hn, StoreT(h, cur.T, v.T))
}

func (x *Exec) subSlice(sink *Builder, s, lo, hi Term) Term {
	// shifted view: elems'[j] = elems[lo+j]; expressed with an uninterpreted shift function and
	// ground facts added by the caller where needed. Only lo == 0 is modelled exactly.
	if lo.S == "0" {
		return MkSlice(SlElems(s), hi)
	}
	es := sliceElem(s.Sort)
	fn := "sl_shift_" + sanitize(string(es))
	x.b.DeclFun(fn, []Sort{ArraySort(SInt, es), SInt}, ArraySort(SInt, es))
	if x.con != nil && x.con.Hybrid {
		if x.shiftAxiom == nil {
			x.shiftAxiom = map[string]bool{}
		}
		if !x.shiftAxiom[fn] {
			// with solver-side quantifiers the shifted view is axiomatised exactly
			x.shiftAxiom[fn] = true
			x.b.Assert(Term{fmt.Sprintf("(forall ((?a %s) (?lo Int) (?j Int)) (! (= (select (%s ?a ?lo) ?j) (select ?a (+ ?lo ?j))) :pattern ((select (%s ?a ?lo) ?j))))", ArraySort(SInt, es), fn, fn), SBool})
		}
	}
	return MkSlice(App(ArraySort(SInt, es), fn, SlElems(s), lo), mk(SInt, "(- %s %s)", hi, lo))
}

// ---------------------------------------------------------------------------
// spec types

type specType struct {
	sort Sort
	ty   types.Type
}

func (x *Exec) parseSpecType(text string, pos token.Pos) specType {
	return x.parseSpecTypeIn(text, "")
}

func (x *Exec) parseSpecTypeIn(text string, pkgPath string) specType {
	text = strings.TrimSpace(text)
	if pkgPath == "" {
		pkgPath = x.pkg.Pkg.Path()
	}
	switch text {
	case "ref":
		return specType{SInt, nil}
	case "int", "Int", "":
		return specType{SInt, types.Typ[types.Int]}
	case "bool", "Bool":
		return specType{SBool, types.Typ[types.Bool]}
	case "string", "Str", "[]byte":
		if text == "[]byte" {
			return specType{SStr, types.NewSlice(types.Typ[types.Byte])}
		}
		return specType{SStr, types.Typ[types.String]}
	case "strset":
		return specType{ArraySort(SStr, SBool), nil}
	case "intset":
		return specType{ArraySort(SInt, SBool), nil}
	case "uint64":
		return specType{SInt, types.Typ[types.Uint64]}
	case "int64":
		return specType{SInt, types.Typ[types.Int64]}
	}
	if strings.HasPrefix(text, "sort:") {
		return specType{Sort(text[5:]), nil}
	}
	x.ld.mu.Lock()
	t, ok := x.ld.typeCache[pkgPath+"|"+text]
	if !ok {
		t = x.ld.evalType(pkgPath, text)
		if t != nil {
			x.ld.typeCache[pkgPath+"|"+text] = t
		}
	}
	x.ld.mu.Unlock()
	if t == nil {
		sfail("cannot resolve type %q in package %s", text, pkgPath)
	}
	return specType{x.tm.SortOf(t), t}
}

// readHeap resolves an item of a "reads" clause (Struct.field, Struct.ghostfield or map[K]V, named in
// package pkgPath) to the current value of that heap.
func (x *Exec) readHeap(e *Env, item, pkgPath string) Term {
	name, sort := x.readHeapNS(item, pkgPath)
	return e.st.Heap(x, name, sort)
}

func (x *Exec) readHeapNS(item, pkgPath string) (string, Sort) {
	if strings.HasPrefix(item, "map[") {
		pt := x.parseSpecTypeIn(item, pkgPath)
		mt, ok := pt.ty.Underlying().(*types.Map)
		if !ok {
			sfail("reads %s: not a map type", item)
		}
		return x.mapHeapName(mt), ArraySort(SInt, x.mapSort(mt))
	}
	k := strings.LastIndex(item, ".")
	if k < 0 {
		sfail("reads %s: want Struct.field or map[K]V", item)
	}
	pt := x.parseSpecTypeIn(item[:k], pkgPath)
	n, st := namedStruct(pt.ty)
	if n == nil || st == nil {
		sfail("reads %s: %s is not a struct type", item, item[:k])
	}
	for i := 0; i < st.NumFields(); i++ {
		if st.Field(i).Name() == item[k+1:] {
			return x.fieldHeapName(n, st.Field(i)), ArraySort(SInt, x.tm.SortOf(st.Field(i).Type()))
		}
	}
	if g, hn := x.ghostLookup(pt.ty, item[k+1:]); g != nil {
		return hn, ArraySort(SInt, x.ghostSort(g).sort)
	}
	sfail("reads %s: no such field", item)
	return "", ""
}

// assumeGenericAxiom asserts a definitional axiom for every value of the heaps that the
// uninterpreted spec functions read (the heaps are universally quantified variables), so that it
// applies in every state of the function. Only with solver-side quantifiers.
func (x *Exec) assumeGenericAxiom(ax *Axiom) {
	st := &State{reach: tTrue, locals: map[*ssa.Alloc]Term{}, heaps: map[string]Term{}}
	var decls []string
	var names []string
	for n := range x.db.Specs {
		names = append(names, n)
	}
	sort.Strings(names)
	for _, n := range names {
		sf := x.db.Specs[n]
		for _, r := range sf.Reads {
			hn, hs := x.readHeapNS(r, sf.PkgPath)
			if _, ok := st.heaps[hn]; !ok {
				v := Term{fmt.Sprintf("?h%d", len(decls)), hs}
				st.heaps[hn] = v
				decls = append(decls, fmt.Sprintf("(%s %s)", v.S, hs))
			}
		}
	}
	env := x.newEnv(map[string]TV{}, st, st)
	env.canonQ = true
	env.forceNative = true
	env.cands = nil
	env.facts = nil
	env.sink = x.b.child()
	env.assume = true
	env.specPkg = ax.PkgPath
	body := env.Bool(ax.Expr)
	f := body.S
	// only the heap variables the axiom mentions are bound
	var used []string
	for _, d := range decls {
		v := d[1:strings.Index(d, " ")]
		if regexp.MustCompile(regexp.QuoteMeta(v) + `\b`).MatchString(f) {
			used = append(used, d)
		}
	}
	decls = used
	if len(decls) > 0 {
		if strings.HasPrefix(body.S, "(forall (") {
			// one quantifier over heaps and variables, so that the axiom's trigger covers both
			f = "(forall (" + strings.Join(decls, " ") + " " + body.S[len("(forall ("):]
		} else {
			f = fmt.Sprintf("(forall (%s) %s)", strings.Join(decls, " "), body.S)
		}
	}
	x.b.Assert(Term{f, SBool})
}

func (x *Exec) applyUninterp(e *Env, sf *SpecFn, args []TV) TV {
	var sorts []Sort
	var ts []Term
	for i, a := range args {
		_ = i
		sorts = append(sorts, a.T.Sort)
		ts = append(ts, a.T)
	}
	// heap-dependent uninterpreted function: the heaps it reads are extra arguments
	for _, r := range sf.Reads {
		h := x.readHeap(e, r, sf.PkgPath)
		sorts = append(sorts, h.Sort)
		ts = append(ts, h)
	}
	rt := x.parseSpecTypeIn(sf.Ret, sf.PkgPath)
	name := "u_" + sf.Name
	x.b.DeclFun(name, sorts, rt.sort)
	for _, a := range args {
		if a.T.Sort == SStr {
			e.cands.addKey(a.T)
		}
	}
	ty := rt.ty
	if isInteger2(ty) || rt.sort == SBool {
		ty = nil
	}
	return TV{App(rt.sort, name, ts...), ty}
}

func (x *Exec) ghostHeap(name string) string { return "$gv_" + name }

func (x *Exec) ghostVar(name string) *GhostVar {
	if x.con == nil {
		return nil
	}
	for i := range x.con.Ghosts {
		if x.con.Ghosts[i].Name == name {
			return &x.con.Ghosts[i]
		}
	}
	return nil
}

func (x *Exec) lookupIdent(e *Env, name string) (TV, bool) {
	// captured variables of a closure under contract: the cell's content in the clause's state
	if c, ok := x.fvCells[name]; ok && e.st != nil {
		cs := ArraySort(SInt, x.tm.SortOf(c.Ty))
		return TV{Select(e.st.Heap(x, x.cellHeapName(c.Ty), cs), c.T), c.Ty}, true
	}
	// ghost locals of the function under proof
	if g := x.ghostVar(name); g != nil && e.st != nil {
		st := x.parseSpecType(g.Type, token.NoPos)
		return TV{e.st.Heap(x, x.ghostHeap(name), st.sort), st.ty}, true
	}
	// named spec constants
	if src, ok := x.db.Consts[name]; ok {
		ex, err := ParseExpr(src)
		if err != nil {
			sfail("const %s: %v", name, err)
		}
		return e.with(map[string]TV{}).Tr(ex), true
	}
	// package-level constants of the package under proof
	if obj := x.pkg.Pkg.Scope().Lookup(name); obj != nil {
		if c, ok := obj.(*types.Const); ok {
			if c.Val().Kind() == constant.Int {
				return TV{IntLitStr(c.Val().ExactString()), nil}, true
			}
			if c.Val().Kind() == constant.String {
				return TV{x.b.StrLit(constant.StringVal(c.Val())), types.Typ[types.String]}, true
			}
		}
	}
	// qualified constants are written pkg_Name in specs: resolved through imports
	if i := strings.Index(name, "$"); i > 0 {
		pk, nm := name[:i], name[i+1:]
		for _, imp := range x.pkg.Pkg.Imports() {
			if imp.Name() == pk {
				if c, ok := imp.Scope().Lookup(nm).(*types.Const); ok && c.Val().Kind() == constant.Int {
					return TV{IntLitStr(c.Val().ExactString()), nil}, true
				}
			}
		}
	}
	return TV{}, false
}

// ---------------------------------------------------------------------------
// running a function under contract

func (x *Exec) fail(format string, args ...interface{}) {
	panic(unsupported(format, args...))
}

func keyOf(ld *Loader, fn *ssa.Function) string {
	if sp, ok := ld.wrapperPkg[fn]; ok {
		return sp.Pkg.Path() + "::" + fn.RelString(sp.Pkg)
	}
	return relKey(fn)
}

func relKey(fn *ssa.Function) string {
	if fn.Pkg == nil {
		// synthetic wrappers etc.
		if fn.Object() != nil && fn.Object().Pkg() != nil {
			return fn.Object().Pkg().Path() + "::" + fn.RelString(fn.Object().Pkg())
		}
		return "::" + fn.String()
	}
	return fn.Pkg.Pkg.Path() + "::" + fn.RelString(fn.Pkg.Pkg)
}

// VerifyFunction generates the obligations of fn against its contract.
func VerifyFunction(ld *Loader, db *ContractDB, fn *ssa.Function, con *Contract) (x *Exec, err error) {
	pkgOf := fn.Pkg
	if pkgOf == nil {
		pkgOf = ld.wrapperPkg[fn]
	}
	x = &Exec{prog: ld.prog, pkg: pkgOf, fn: fn, b: NewBuilder(), db: db, ld: ld, con: con, cands: NewCands(),
		initHeaps: map[string]Term{}, counters: map[string]int{}, assumptions: map[string]bool{}, params: map[string]TV{},
		fnKey: keyOf(ld, fn), uninterpApps: map[string][][]TV{}, typeTags: map[string]int{}}
	x.tm = &TypeMap{b: x.b}
	x.cands.mark = x.b.Mark
	x.cands.symf = func(arr string, out map[string]bool) { x.symbolsOf(arr, out, 3) }
	x.checked = con.Arith == "checked"
	x.usesSz = true
	x.sprintfNames = map[string]string{}
	defer func() {
		if r := recover(); r != nil {
			switch e := r.(type) {
			case unsupportedErr:
				err = fmt.Errorf("unsupported: %s", e.msg)
			case specErr:
				err = fmt.Errorf("contract error: %s", e.msg)
			default:
				panic(r)
			}
		}
	}()
	if fn.Blocks == nil {
		x.fail("function %s has no body", fn)
	}
	st := &State{reach: tTrue, locals: map[*ssa.Alloc]Term{}, heaps: map[string]Term{}}
	x.cur = st
	alloc0 := st.Alloc(x)
	f := &Frame{fn: fn, regs: map[ssa.Value]Val{}, top: true}
	// parameters
	for _, p := range fn.Params {
		t := x.b.FreshNamed("p_"+p.Name(), x.tm.SortOf(p.Type()))
		x.b.inputs = append(x.b.inputs, t.S)
		f.regs[p] = Val{T: t}
		x.b.Assert(x.typeFact(t, p.Type(), alloc0))
		ty := p.Type()
		x.params[p.Name()] = TV{t, ty}
		if fn.Signature.Recv() != nil && p == fn.Params[0] {
			x.params["self"] = TV{t, ty} // the receiver, whatever it is called (wrappers of promoted methods)
		}
		if sig, ok := p.Type().Underlying().(*types.Signature); ok {
			for k := 0; k < sig.Results().Len(); k++ {
				ct := x.b.FreshNamed(fmt.Sprintf("cb_%s_%d", p.Name(), k), x.tm.SortOf(sig.Results().At(k).Type()))
				x.b.inputs = append(x.b.inputs, ct.S)
				x.params[fmt.Sprintf("%s$%d", p.Name(), k)] = TV{ct, sig.Results().At(k).Type()}
			}
		}
	}
	if fn.Signature.Recv() != nil && len(fn.Params) > 0 {
		if _, ok := fn.Params[0].Type().Underlying().(*types.Pointer); ok {
			x.b.Assert(Not(Eq(f.regs[fn.Params[0]].T, IntLit(0))))
			x.note("pointer receivers are non-nil (checked at every call site under contract)")
		}
	}
	for _, fv := range fn.FreeVars {
		// a closure under contract: each captured variable is a cell; contracts name its entry value
		et := fv.Type().(*types.Pointer).Elem()
		ref := x.b.FreshNamed("fv_"+fv.Name(), SInt)
		x.b.Assert(And(mk(SBool, "(> %s 0)", ref), mk(SBool, "(< %s %s)", ref, alloc0)))
		f.regs[fv] = Val{T: ref, LV: &LValue{kind: LVCell, base: ref, ty: et}}
		cs := ArraySort(SInt, x.tm.SortOf(et))
		v := Select(st.Heap(x, x.cellHeapName(et), cs), ref)
		x.b.Assert(x.typeFact(v, et, alloc0))
		// a captured variable is read in the state in which a clause is evaluated (entry value in
		// requires and old(...), exit value in ensures): resolved dynamically by lookupIdent
		if x.fvCells == nil {
			x.fvCells = map[string]TV{}
		}
		x.fvCells[fv.Name()] = TV{ref, et}
	}
	res := fn.Signature.Results()
	for i := 0; i < res.Len(); i++ {
		n := res.At(i).Name()
		x.results = append(x.results, resultVar{n, res.At(i).Type()})
	}
	for _, g := range con.Ghosts {
		gt := x.parseSpecType(g.Type, token.NoPos)
		var v TV
		if g.Init.Kind == EIdent && g.Init.Name == "zero" && gt.ty != nil {
			v = TV{x.tm.Zero(gt.ty), gt.ty}
		} else if g.Init.Kind == EIdent && g.Init.Name == "any" {
			v = TV{x.b.Fresh("gvinit_"+g.Name, gt.sort), gt.ty}
		} else {
			v = x.newEnv(x.paramVars(), st, st).Tr(g.Init)
		}
		if v.T.Sort != gt.sort {
			x.fail("ghost %s: initial value of sort %s, declared %s", g.Name, v.T.Sort, gt.sort)
		}
		st.heaps[x.ghostHeap(g.Name)] = x.b.Def("gv_"+g.Name, v.T)
	}
	x.entry = st.clone()
	for _, fr := range con.Fresh {
		src := fmt.Sprintf("%s == nil || fresh(%s)", fr, fr)
		e, perr := ParseExpr(src)
		if perr != nil {
			x.fail("fresh clause: %v", perr)
		}
		con.Ensures = append(con.Ensures, Clause{Tags: con.Tags, Expr: e, Src: src, File: con.File, Line: con.Line, Label: "fresh_" + fr})
	}
	con.Fresh = append([]string{}, con.Fresh...)
	// dynamic types named by hastype(...) in this contract or in the predicates of its package are known
	// from the start, so that interface-to-interface assertions are decided for them
	x.registerSpecTags(con)
	// preconditions
	env := x.newEnv(x.paramVars(), x.entry, x.entry)
	for _, r := range con.Requires {
		x.assumeSpec(tTrue, r.Expr, env, "requires "+r.Src)
	}
	if con.Hybrid {
		x.note("quantifiers of " + x.fnKeyShort() + " are left to the solvers (E-matching on native quantifiers; only unsat answers are used); its cover checks can refute but not confirm reachability")
	}
	for _, an := range con.Uses {
		ax := db.Axioms[an]
		if ax == nil {
			x.fail("uses %s: no such axiom", an)
		}
		if con.Hybrid {
			x.assumeGenericAxiom(ax)
			x.note("definitional axiom of a specification function (assumed, for every heap): " + ax.Name + ": " + ax.Src)
			continue
		}
		aenv := x.newEnv(x.paramVars(), x.entry, x.entry)
		aenv.specPkg = ax.PkgPath
		x.assumeSpec(tTrue, ax.Expr, aenv, "axiom "+ax.Name+": "+ax.Src)
		x.note("definitional axiom of a specification function (assumed, over the entry heap): " + ax.Name + ": " + ax.Src)
	}
	for _, r := range con.Assumes {
		x.assumeSpec(tTrue, r.Expr, env, "assume "+r.Src)
		x.note("explicit assumption in contract of " + x.fnKeyShort() + ": " + r.Src)
	}
	// cover: the preconditions are satisfiable
	tt := tTrue
	x.obls = append(x.obls, &Obligation{Name: x.fnKeyShort() + "/cover", Kind: "cover", Tags: con.Tags, Func: x.fnKey, mark: x.b.Mark(), guard: tTrue, ground: &tt, mustSat: true, Src: "preconditions satisfiable", hyps: scopeOf(x.entryScope())})

	x.runFrame(f)
	x.topLevelPanics(f)

	// exits
	for _, ex := range f.exits {
		if len(con.GhostUpd) > 0 {
			saved := x.cur
			x.cur = ex.st
			x.runGhostUpdates(f, "exit", -1, true)
			x.cur = saved
		}
		vars := x.paramVars()
		x.bindResults(vars, ex.results)
		eenv := x.newEnv(vars, ex.st, x.entry)
		for _, ga := range con.GhostExit {
			x.ghostAssign(ga, eenv)
		}
		for _, c := range con.Ensures {
			x.b.Comment("exit at " + x.posStr(ex.pos))
			lbl := ""
			nm := "post"
			ob := &Obligation{Kind: "post", Tags: c.Tags, Func: x.fnKey, mark: x.b.Mark(), guard: ex.st.reach, expr: c.Expr, env: eenv, Src: c.Src, hyps: scopeOf(ex.st),
				Pos: fmt.Sprintf("%s:%d (exit %s)", shortPath(c.File), c.Line, x.posStr(ex.pos))}
			if c.Label != "" {
				lbl = c.Label
			}
			k := x.count(nm + lbl)
			if lbl != "" {
				ob.Name = fmt.Sprintf("%s/post:%s#%d", x.fnKeyShort(), lbl, k)
			} else {
				ob.Name = fmt.Sprintf("%s/post#%d", x.fnKeyShort(), k)
			}
			x.obls = append(x.obls, ob)
		}
		x.frameObligations(f, ex)
		tt := tTrue
		x.addObl(&Obligation{Name: fmt.Sprintf("%s/cover:exit", x.fnKeyShort()), Kind: "cover-exit", Tags: con.Tags, Func: x.fnKey,
			mark: x.b.Mark(), guard: ex.st.reach, ground: &tt, mustSat: true, Src: "exit at " + x.posStr(ex.pos) + " reachable under the assumptions made on the way", hyps: scopeOf(ex.st)})
	}
	if len(f.exits) == 0 {
		x.note("function has no normal exit")
	}
	return x, nil
}

// topLevelPanics decides what a panic exit of the function under proof means: with a deferred
// recover() closure it becomes a normal exit through the Recover block; otherwise the contract's
// xensures must hold there (no xensures/panics_if: the panic must be unreachable).
func (x *Exec) topLevelPanics(f *Frame) {
	if len(f.panics) > 1 {
		// all panic exits share one continuation: merge them
		var ins []inEdge
		for _, ps := range f.panics {
			ins = append(ins, inEdge{ps.st, ps.st.reach})
		}
		m := x.mergeStates(ins, "panics")
		f.panics = []panicState{{st: m, pos: f.panics[0].pos, what: fmt.Sprintf("%s (and %d more panic sites)", f.panics[0].what, len(f.panics)-1)}}
	}
	for len(f.panics) > 0 {
		ps := f.panics[0]
		f.panics = f.panics[1:]
		if len(f.deferred) > 0 && f.fn.Recover != nil {
			x.cur = ps.st
			x.inRecover = true
			x.runDeferred(f)
			x.inRecover = false
			if x.cur != nil {
				x.execBlock(f, f.fn.Recover)
			}
			x.cur = nil
			continue
		}
		if len(x.con.XEnsures) == 0 && len(x.con.PanicsIf) == 0 {
			x.cur = ps.st
			x.obligeGround(f, "panic", x.safetyTags(), ps.st.reach, tFalse, ps.what+" reachable", ps.pos)
			x.cur = nil
			continue
		}
		env := x.newEnv(x.paramVars(), ps.st, x.entry)
		for _, c := range x.con.PanicsIf {
			pe := *env
			pe.st = x.entry
			x.obligeSpec(f, "panic-allowed", c, ps.st.reach, &pe, "")
		}
		for _, c := range x.con.XEnsures {
			x.obligeSpec(f, "xpost", c, ps.st.reach, env, "")
		}
		x.frameObligations(f, exitState{st: ps.st, pos: ps.pos})
	}
}

func (x *Exec) entryScope() *State { return x.cur }

func (x *Exec) paramVars() map[string]TV {
	vars := map[string]TV{}
	for k, v := range x.params {
		vars[k] = v
	}
	return vars
}

func (x *Exec) bindResults(vars map[string]TV, rs []Term) {
	for i, r := range rs {
		rv := x.results[i]
		tv := TV{r, rv.ty}
		if len(rs) == 1 {
			vars["result"] = tv
		}
		vars[fmt.Sprintf("result%d", i)] = tv
		if rv.name != "" && rv.name != "_" {
			vars[rv.name] = tv
		}
	}
}

// frameObligations: every heap not named in modifies is unchanged on pre-existing objects.
func (x *Exec) frameObligations(f *Frame, ex exitState) {
	var names []string
	for n := range ex.st.heaps {
		names = append(names, n)
	}
	sort.Strings(names)
	mods := x.resolveModifies(x.con, x.newEnv(x.paramVars(), x.entry, x.entry))
	for _, n := range names {
		if strings.HasPrefix(n, "$") {
			continue // $alloc and ghost iteration state
		}
		if strings.HasPrefix(n, "Cell__") && regexp.MustCompile(`^Cell__[0-9]+_`).MatchString(n) {
			continue // cells of array type: only the varargs temporaries allocated by the function itself
		}
		fin := ex.st.heaps[n]
		ini, ok := x.initHeaps[n]
		if !ok || fin.S == ini.S {
			continue
		}
		if mods.whole[n] {
			continue
		}
		r := x.b.FreshNamed("frame_r_"+sanitize(n), SInt)
		x.cands.addRef(r)
		hyp := []Term{mk(SBool, "(<= 1 %s)", r), mk(SBool, "(< %s %s)", r, x.entry.Alloc(x))}
		for _, t := range mods.objs[n] {
			hyp = append(hyp, Not(Eq(r, t)))
		}
		goal := Implies(And(hyp...), Eq(Select(fin, r), Select(ini, r)))
		k := x.count("frame")
		g := goal
		x.obls = append(x.obls, &Obligation{Name: fmt.Sprintf("%s/frame:%s#%d", x.fnKeyShort(), n, k), Kind: "frame", Tags: x.con.Tags, Func: x.fnKey,
			mark: x.b.Mark(), guard: ex.st.reach, ground: &g, Src: "heap " + n + " unchanged outside modifies", Pos: x.posStr(ex.pos), hyps: scopeOf(ex.st)})
	}
}

type modSet struct {
	whole map[string]bool   // heap name -> entire heap may change
	objs  map[string][]Term // heap name -> references whose entry may change
}

// resolveModifies evaluates the modifies clause of c in env (caller's or own entry state).
func (x *Exec) resolveModifies(c *Contract, env *Env) modSet {
	ms := modSet{whole: map[string]bool{}, objs: map[string][]Term{}}
	for _, m := range c.Modifies {
		x.resolveModItem(m, env, &ms)
	}
	return ms
}

func (x *Exec) resolveModItem(m *Expr, env *Env, ms *modSet) {
	switch m.Kind {
	case EIdent:
		// a captured variable of the closure under proof: its cell
		if c, ok := x.fvCells[m.Name]; ok {
			hn := x.cellHeapName(c.Ty)
			ms.objs[hn] = append(ms.objs[hn], c.T)
			return
		}
		sfail("modifies %s: not a captured variable", m.Name)
	case EField:
		base := env.Tr(m.Args[0])
		_, index, _ := lookupField(base.Ty, x.pkgTypes(), m.Name)
		if index == nil {
			if g, hn := x.ghostLookup(base.Ty, m.Name); g != nil {
				ne := *env
				ne.noShare = true
				tv, _ := x.ghostField(&ne, base, m.Name)
				// the selected object is the second argument of the select term
				parts := splitSexp(tv.T.S)
				ms.objs[hn] = append(ms.objs[hn], Term{parts[2], SInt})
				return
			}
			sfail("modifies: no field %s in %s", m.Name, base.Ty)
		}
		cur := base
		for _, i := range index[:len(index)-1] {
			cur = x.fieldStep(env, cur, i)
		}
		p, ok := types.Unalias(cur.Ty).Underlying().(*types.Pointer)
		if !ok {
			sfail("modifies: %s is not a field of a heap object", m)
		}
		n, s := namedStruct(p.Elem())
		fv := s.Field(index[len(index)-1])
		hn := x.fieldHeapName(n, fv)
		ms.objs[hn] = append(ms.objs[hn], cur.T)
	case ECall:
		switch m.Name {
		case "contents":
			mv := env.Tr(m.Args[0])
			mt, ok := mv.Ty.Underlying().(*types.Map)
			if !ok {
				sfail("modifies contents(%s): not a map", m.Args[0])
			}
			hn := x.mapHeapName(mt)
			ms.objs[hn] = append(ms.objs[hn], mv.T)
		case "every":
			// every(T.f): the whole field heap; every(map[K]V): the whole map heap
			a := m.Args[0]
			if a.Kind == EStr {
				// every("map[K]V"): the whole heap of maps of that type
				t := x.parseSpecTypeIn(a.Name, env.specPkg)
				if mt, ok := t.ty.Underlying().(*types.Map); ok {
					ms.whole[x.mapHeapName(mt)] = true
					return
				}
				sfail("modifies every(%q): not a map type", a.Name)
			}
			tname := ""
			if a.Kind == EField && a.Args[0].Kind == EIdent {
				tname = a.Args[0].Name
			} else if a.Kind == EField && a.Args[0].Kind == EField && a.Args[0].Args[0].Kind == EIdent {
				tname = a.Args[0].Args[0].Name + "." + a.Args[0].Name // pkg.Type.field
			}
			if tname != "" {
				t := x.parseSpecTypeIn(tname, env.specPkg)
				n, s := namedStruct(t.ty)
				if s == nil {
					sfail("modifies every(%s): not a struct type", a)
				}
				for i := 0; i < s.NumFields(); i++ {
					if s.Field(i).Name() == a.Name {
						ms.whole[x.fieldHeapName(n, s.Field(i))] = true
						return
					}
				}
				sfail("modifies every(%s): no such field", a)
			}
			sfail("modifies every(...) expects Type.field")
		case "fields":
			base := env.Tr(m.Args[0])
			p, ok := types.Unalias(base.Ty).Underlying().(*types.Pointer)
			if !ok {
				sfail("modifies fields(%s): not a pointer", m.Args[0])
			}
			n, s := namedStruct(p.Elem())
			for i := 0; i < s.NumFields(); i++ {
				hn := x.fieldHeapName(n, s.Field(i))
				ms.objs[hn] = append(ms.objs[hn], base.T)
			}
		case "cell":
			base := env.Tr(m.Args[0])
			p, ok := types.Unalias(base.Ty).Underlying().(*types.Pointer)
			if !ok {
				sfail("modifies cell(%s): not a pointer", m.Args[0])
			}
			hn := x.cellHeapName(p.Elem())
			ms.objs[hn] = append(ms.objs[hn], base.T)
		default:
			sfail("unknown modifies item %s", m)
		}
	default:
		sfail("unknown modifies item %s", m)
	}
}

// ---------------------------------------------------------------------------
// CFG processing

func (x *Exec) findLoops(f *Frame) {
	fn := f.fn
	f.loops = map[*ssa.BasicBlock]*loopInfo{}
	for _, b := range fn.Blocks {
		for _, s := range b.Succs {
			if s.Dominates(b) {
				li := f.loops[s]
				if li == nil {
					li = &loopInfo{header: s, body: map[*ssa.BasicBlock]bool{s: true}}
					f.loops[s] = li
				}
				// natural loop of back edge b -> s
				stack := []*ssa.BasicBlock{b}
				for len(stack) > 0 {
					n := stack[len(stack)-1]
					stack = stack[:len(stack)-1]
					if li.body[n] {
						continue
					}
					li.body[n] = true
					stack = append(stack, n.Preds...)
				}
			}
		}
	}
	if len(f.loops) == 0 {
		return
	}
	var lis []*loopInfo
	for _, li := range f.loops {
		li.minPos = token.Pos(1 << 40)
		for b := range li.body {
			for _, ins := range b.Instrs {
				if p := ins.Pos(); p.IsValid() && p < li.minPos {
					li.minPos = p
				}
			}
		}
		lis = append(lis, li)
	}
	sort.Slice(lis, func(i, j int) bool {
		if lis[i].minPos != lis[j].minPos {
			return lis[i].minPos < lis[j].minPos
		}
		return len(lis[i].body) > len(lis[j].body)
	})
	// source-order ordinals from the syntax, when available
	nAst := -1
	if syn := fn.Syntax(); syn != nil {
		nAst = 0
		var body ast.Node
		switch s := syn.(type) {
		case *ast.FuncDecl:
			body = s.Body
		case *ast.FuncLit:
			body = s.Body
		}
		if body != nil {
			ast.Inspect(body, func(n ast.Node) bool {
				switch n.(type) {
				case *ast.FuncLit:
					return false
				case *ast.ForStmt, *ast.RangeStmt:
					nAst++
				}
				return true
			})
		}
	}
	if nAst >= 0 && nAst != len(lis) {
		// loops that never iterate back (e.g. unconditional break) have no back edge; labelled
		// continue can merge loops. Treat a mismatch as an engine error when invariants are given.
		if f.top && len(x.con.Loops) > 0 {
			x.fail("loop count mismatch: %d loops in syntax, %d natural loops in SSA", nAst, len(lis))
		}
	}
	for i, li := range lis {
		li.ordinal = i
		if f.top && x.con != nil {
			li.spec = x.con.Loops[i]
			if all := x.con.Loops[-1]; all != nil {
				// clauses given for every loop ("loop * ...") come first
				m := &LoopSpec{}
				m.Invariants = append(m.Invariants, all.Invariants...)
				m.Modifies = append(m.Modifies, all.Modifies...)
				if li.spec != nil {
					m.Invariants = append(m.Invariants, li.spec.Invariants...)
					m.Modifies = append(m.Modifies, li.spec.Modifies...)
					m.Decreases = li.spec.Decreases
				}
				li.spec = m
			}
		}
	}
	if f.top {
		for k := range x.con.Loops {
			if k >= len(lis) && k >= 0 {
				x.fail("contract gives an invariant for loop %d but the function has %d loops", k, len(lis))
			}
		}
	}
}

func (x *Exec) rpo(f *Frame) []*ssa.BasicBlock {
	fn := f.fn
	seen := map[*ssa.BasicBlock]bool{}
	var order []*ssa.BasicBlock
	var visit func(b *ssa.BasicBlock)
	visit = func(b *ssa.BasicBlock) {
		seen[b] = true
		for _, s := range b.Succs {
			if s.Dominates(b) { // back edge
				continue
			}
			if !seen[s] {
				visit(s)
			}
		}
		order = append(order, b)
	}
	visit(fn.Blocks[0])
	for i, j := 0, len(order)-1; i < j; i, j = i+1, j-1 {
		order[i], order[j] = order[j], order[i]
	}
	return order
}

// tailDuplicable: a short block without calls whose successors are all back edges (or none).
func (x *Exec) tailDuplicable(f *Frame, b *ssa.BasicBlock) bool {
	if f.loops[b] != nil || len(b.Instrs) > 24 {
		return false
	}
	for _, s := range b.Succs {
		if !s.Dominates(b) {
			return false
		}
	}
	for _, ins := range b.Instrs {
		switch ins.(type) {
		case *ssa.Call, *ssa.Defer, *ssa.Go, *ssa.RunDefers:
			return false
		}
	}
	return true
}

type inEdge struct {
	st   *State
	cond Term // reach ∧ edge condition
}

func (x *Exec) mergeStates(ins []inEdge, hint string) *State {
	if len(ins) == 1 {
		st := ins[0].st.clone()
		st.reach = x.b.Def("reach_"+hint, ins[0].cond)
		return st
	}
	var rs []Term
	for _, in := range ins {
		rs = append(rs, in.cond)
	}
	st := &State{locals: map[*ssa.Alloc]Term{}, heaps: map[string]Term{}, hyps: map[int]bool{}}
	for _, in := range ins {
		for k := range in.st.hyps {
			st.hyps[k] = true
		}
	}
	st.reach = x.b.Def("reach_"+hint, Or(rs...))
	// locals
	lkeys := map[*ssa.Alloc]bool{}
	for _, in := range ins {
		for k := range in.st.locals {
			lkeys[k] = true
		}
	}
	for k := range lkeys {
		var vals []Term
		all := true
		for _, in := range ins {
			v, ok := in.st.locals[k]
			if !ok {
				all = false
				break
			}
			vals = append(vals, v)
		}
		if !all {
			continue // not defined on every path: dead at the join (SSA dominance)
		}
		st.locals[k] = x.iteChain(ins, vals, "m_"+k.Comment)
	}
	hkeys := map[string]bool{}
	for _, in := range ins {
		for k := range in.st.heaps {
			hkeys[k] = true
		}
	}
	for k := range hkeys {
		var vals []Term
		for _, in := range ins {
			v, ok := in.st.heaps[k]
			if !ok {
				v = x.initHeaps[k]
			}
			vals = append(vals, v)
		}
		st.heaps[k] = x.iteChain(ins, vals, "m_"+k)
	}
	return st
}

func (x *Exec) iteChain(ins []inEdge, vals []Term, hint string) Term {
	same := true
	for _, v := range vals[1:] {
		if v.S != vals[0].S {
			same = false
		}
	}
	if same {
		return vals[0]
	}
	t := vals[len(vals)-1]
	for i := len(vals) - 2; i >= 0; i-- {
		t = Ite(ins[i].cond, vals[i], t)
	}
	return x.b.Def(hint, t)
}

func (x *Exec) runFrame(f *Frame) {
	prev := x.curFrame
	x.curFrame = f
	defer func() { x.curFrame = prev }()
	x.findLoops(f)
	order := x.rpo(f)
	f.out = map[*ssa.BasicBlock]*State{}
	f.edge = map[[2]int]Term{}
	entry := x.cur
	for _, b := range order {
		var st *State
		if b.Index == 0 {
			st = entry
		} else {
			var ins []inEdge
			for _, p := range b.Preds {
				if b.Dominates(p) {
					continue // back edge
				}
				ps, ok := f.out[p]
				if !ok {
					continue
				}
				c, ok := f.edge[[2]int{p.Index, b.Index}]
				if !ok {
					continue
				}
				ins = append(ins, inEdge{ps, x.b.Def("edge", And(ps.reach, c))})
			}
			if len(ins) == 0 {
				continue
			}
			if len(ins) > 1 && x.tailDuplicable(f, b) {
				// small join block that only leads back to a loop header or out of the function: run it
				// once per incoming path, so that each path keeps its own hypotheses
				for k, in := range ins {
					x.cur = in.st.clone()
					x.cur.reach = x.b.Def(fmt.Sprintf("reach_b%d_p%d", b.Index, k), in.cond)
					x.execBlock(f, b)
				}
				continue
			}
			st = x.mergeStates(ins, fmt.Sprintf("b%d", b.Index))
		}
		x.cur = st
		if li := f.loops[b]; li != nil {
			x.cutLoop(f, li)
		}
		x.execBlock(f, b)
		f.out[b] = x.cur
	}
	x.cur = nil
}

// cutLoop: check invariants on entry, havoc what the loop modifies, assume invariants.
func (x *Exec) cutLoop(f *Frame, li *loopInfo) {
	st := x.cur
	x.b.Comment(fmt.Sprintf("loop %d header b%d", li.ordinal, li.header.Index))
	if !f.top && li.spec == nil {
		// inlined callee with a loop: no invariant available
		x.fail("inlined function %s contains a loop (give it a contract)", f.fn.Name())
	}
	if li.spec != nil {
		env := x.newEnv(x.loopVars(f, li), st.clone(), x.entry)
		for j, inv := range li.spec.Invariants {
			x.obligeSpec(f, "inv-entry", inv, st.reach, env, fmt.Sprintf("loop%d/inv-entry#%d", li.ordinal, j))
		}
	}
	// havoc
	mod := x.loopModifies(f, li)
	pre := st.clone()
	for a := range mod.locals {
		if _, ok := st.locals[a]; ok {
			st.locals[a] = x.b.Fresh("hv_"+a.Comment, x.tm.SortOf(a.Type().(*types.Pointer).Elem()))
			x.assume(st.reach, x.typeFact(st.locals[a], a.Type().(*types.Pointer).Elem(), pre.Alloc(x)))
		}
	}
	var hs []string
	for h := range mod.heaps {
		hs = append(hs, h)
	}
	sort.Strings(hs)
	for _, h := range hs {
		cur := st.Heap(x, h, mod.heaps[h])
		if h == "$alloc" {
			na := x.b.Fresh("hv_alloc", SInt)
			x.assume(st.reach, mk(SBool, "(>= %s %s)", na, cur))
			st.heaps[h] = na
			continue
		}
		st.heaps[h] = x.b.Fresh("hv_"+h, cur.Sort)
	}
	// the hidden index of a range-over-slice loop starts at -1 and is only incremented by the loop
	for a := range mod.locals {
		if a.Comment == "rangeindex" {
			if v, ok := st.locals[a]; ok {
				x.assume(st.reach, And(mk(SBool, "(>= %s (- 1))", v), mk(SBool, "(<= %s 281474976710656)", v)))
			}
		}
	}
	// type facts of havocked locals need the new alloc
	for a := range mod.locals {
		if v, ok := st.locals[a]; ok {
			x.assume(st.reach, x.typeFact(v, a.Type().(*types.Pointer).Elem(), st.Alloc(x)))
		}
	}
	if li.spec != nil {
		env := x.newEnv(x.loopVars(f, li), st.clone(), x.entry)
		for _, inv := range li.spec.Invariants {
			x.assumeSpec(st.reach, inv.Expr, env, fmt.Sprintf("loop %d invariant %s", li.ordinal, inv.Src))
		}
	}
	if f.top {
		tt := tTrue
		x.addObl(&Obligation{Name: fmt.Sprintf("%s/cover:loop%d", x.fnKeyShort(), li.ordinal), Kind: "cover", Tags: x.safetyTags(), Func: x.fnKey,
			mark: x.b.Mark(), guard: st.reach, ground: &tt, mustSat: true, Src: "loop head reachable with its invariants", hyps: scopeOf(st)})
	}
	// implicit loop frame: objects that existed before the loop and are not named in the loop's
	// modifies clause keep their content (assumed at the head, proved on every back edge)
	li.frames = nil
	var lms modSet
	lms = modSet{whole: map[string]bool{}, objs: map[string][]Term{}}
	if li.spec != nil {
		menv := x.newEnv(x.loopVars(f, li), pre, x.entry)
		for _, m := range li.spec.Modifies {
			x.resolveModItem(m, menv, &lms)
		}
	}
	for _, h := range hs {
		if strings.HasPrefix(h, "$") || lms.whole[h] {
			continue
		}
		fr := loopFrame{heap: h, pre: pre.Heap(x, h, mod.heaps[h]), allocPre: pre.Alloc(x), excl: lms.objs[h]}
		// maps made by this function are its own objects as well
		for v, r := range f.regs {
			if mm, ok := v.(*ssa.MakeMap); ok && r.T.S != "" {
				if mt, ok := mm.Type().Underlying().(*types.Map); ok && x.mapHeapName(mt) == h {
					fr.excl = append(fr.excl, r.T)
				}
			}
		}
		// cells of the function's own address-taken locals are locals, not pre-existing objects
		for v, r := range f.regs {
			if a, ok := v.(*ssa.Alloc); ok && a.Heap && r.LV != nil && r.LV.kind == LVCell && len(r.LV.path) == 0 {
				if x.cellHeapName(a.Type().(*types.Pointer).Elem()) == h {
					if unaliasedCell(a, li) && !storedIn(a, li) {
						continue // never aliased before the function returns and not assigned in this loop: it keeps its value
					}
					fr.excl = append(fr.excl, r.LV.base)
				}
			}
		}
		li.frames = append(li.frames, fr)
		x.addQhyp(st, qhyp{mark: x.b.Mark(), guard: st.reach, expr: loopFrameExpr, env: x.loopFrameEnv(fr, st.heaps[h]), src: "loop frame of " + h})
	}
}

type loopFrame struct {
	heap     string
	pre      Term
	allocPre Term
	excl     []Term
}

var loopFrameExpr = &Expr{Kind: EQuant, Name: "forall", Vars: []QVar{{Name: "r$", Type: "ref"}},
	Args: []*Expr{{Kind: ECall, Name: "$loopframe", Args: []*Expr{{Kind: EIdent, Name: "r$"}}}}}

func (x *Exec) loopFrameEnv(fr loopFrame, cur Term) *Env {
	vars := map[string]TV{"$pre": {fr.pre, nil}, "$cur": {cur, nil}, "$allocpre": {fr.allocPre, nil}}
	for i, e := range fr.excl {
		vars[fmt.Sprintf("$excl%d", i)] = TV{e, nil}
	}
	return x.newEnv(vars, x.cur.clone(), x.entry)
}

// loopVars: parameters plus the source-level locals visible at the loop.
func (x *Exec) loopVars(f *Frame, li *loopInfo) map[string]TV {
	vars := x.paramVars()
	st := x.cur
	// choose, for each name, the alloc declared latest before the end of the loop
	best := map[string]*ssa.Alloc{}
	// several locals can share a name (shadowing, the hidden "rangeindex" of every range loop): prefer
	// the one written inside this loop, then the one declared last (position, then instruction order)
	inLoop := map[*ssa.Alloc]bool{}
	if li != nil && li.body != nil {
		for b := range li.body {
			for _, ins := range b.Instrs {
				if s, ok := ins.(*ssa.Store); ok {
					if a, ok := s.Addr.(*ssa.Alloc); ok {
						inLoop[a] = true
					}
				}
			}
		}
	}
	order := func(a *ssa.Alloc) int {
		blk := a.Block()
		if blk == nil {
			return 0
		}
		for k, ins := range blk.Instrs {
			if ins == a {
				return blk.Index*100000 + k
			}
		}
		return blk.Index * 100000
	}
	inHeader := map[*ssa.Alloc]bool{}
	if li != nil && li.header != nil {
		for _, ins := range li.header.Instrs {
			if s, ok := ins.(*ssa.Store); ok {
				if a, ok := s.Addr.(*ssa.Alloc); ok {
					inHeader[a] = true
				}
			}
		}
	}
	better := func(a, b *ssa.Alloc) bool {
		if inHeader[a] != inHeader[b] {
			return inHeader[a] // the loop's own hidden index is advanced in its header
		}
		if inLoop[a] != inLoop[b] {
			return inLoop[a]
		}
		if a.Pos() != b.Pos() {
			return a.Pos() > b.Pos()
		}
		return order(a) > order(b)
	}
	for a := range st.locals {
		n := a.Comment
		if n == "" || a.Parent() != f.fn {
			continue // unnamed temporaries and locals of inlined callees
		}
		if b, ok := best[n]; !ok || better(a, b) {
			best[n] = a
		}
	}
	for n, a := range best {
		vars[n] = TV{st.locals[a], a.Type().(*types.Pointer).Elem()}
	}
	// named locals that live in cells (captured by closures / address taken)
	for v, r := range f.regs {
		a, ok := v.(*ssa.Alloc)
		if !ok || !a.Heap || a.Comment == "" || r.LV == nil || r.LV.kind != LVCell {
			continue
		}
		et := a.Type().(*types.Pointer).Elem()
		if _, exists := vars[a.Comment]; exists {
			continue
		}
		cs := ArraySort(SInt, x.tm.SortOf(et))
		vars[a.Comment] = TV{Select(st.Heap(x, x.cellHeapName(et), cs), r.LV.base), et}
	}
	// visited(k) of the map range that drives this loop
	for _, ins := range li.header.Instrs {
		if nx, ok := ins.(*ssa.Next); ok && !nx.IsString {
			rng := nx.Iter.(*ssa.Range)
			mt := rng.X.Type().Underlying().(*types.Map)
			vars["$visited"] = TV{st.Heap(x, x.visitedName(rng), ArraySort(x.tm.SortOf(mt.Key()), SBool)), nil}
		}
	}
	return vars
}

type modInfo struct {
	locals map[*ssa.Alloc]bool
	heaps  map[string]Sort
}

func (x *Exec) loopModifies(f *Frame, li *loopInfo) modInfo {
	mi := modInfo{locals: map[*ssa.Alloc]bool{}, heaps: map[string]Sort{}}
	for b := range li.body {
		for _, ins := range b.Instrs {
			x.instrModifies(f, ins, &mi, 0)
			if f.top && x.con != nil {
				if st, ok := ins.(*ssa.Store); ok {
					if a, ok := st.Addr.(*ssa.Alloc); ok && a.Comment != "" {
						for _, gu := range x.con.GhostUpd {
							if gu.Callee == "set:"+a.Comment {
								if g := x.ghostVar(gu.Name); g != nil {
									mi.heaps[x.ghostHeap(gu.Name)] = x.parseSpecType(g.Type, token.NoPos).sort
								}
							}
						}
					}
				}
				if c, ok := ins.(*ssa.Call); ok {
					name, k := x.staticCallOrdinal(f, c)
					for _, gu := range x.con.GhostUpd {
						if gu.Callee == name && gu.K == k {
							if g := x.ghostVar(gu.Name); g != nil {
								mi.heaps[x.ghostHeap(gu.Name)] = x.parseSpecType(g.Type, token.NoPos).sort
							}
						}
					}
				}
			}
		}
	}
	return mi
}

// staticCallOrdinal names a call instruction by its callee's short name ("append" for the builtin,
// "sort.Slice" for the sort helpers) and its ordinal among the calls of that name in the function's
// instruction order (block index, then position in the block).
func (x *Exec) staticCallOrdinal(f *Frame, c *ssa.Call) (string, int) {
	if x.callOrd == nil {
		x.callOrd = map[*ssa.Call]int{}
		x.callName = map[*ssa.Call]string{}
		n := map[string]int{}
		for _, b := range f.fn.Blocks {
			for _, ins := range b.Instrs {
				cc, ok := ins.(*ssa.Call)
				if !ok {
					continue
				}
				name := ""
				if bi, ok := cc.Call.Value.(*ssa.Builtin); ok {
					name = bi.Name()
				} else if cc.Call.IsInvoke() {
					name = cc.Call.Method.Name()
				} else if sc := cc.Call.StaticCallee(); sc != nil {
					name = sc.Name()
					if sc.Pkg != nil && sc.Pkg.Pkg.Path() == "sort" {
						name = "sort." + name
					}
				}
				x.callName[cc] = name
				x.callOrd[cc] = n[name]
				n[name]++
			}
		}
	}
	return x.callName[c], x.callOrd[c]
}

func (x *Exec) rootOfAddr(v ssa.Value) (alloc *ssa.Alloc, heap string, hsort Sort, ok bool) {
	switch a := v.(type) {
	case *ssa.Alloc:
		if !a.Heap {
			return a, "", "", true
		}
		et := a.Type().(*types.Pointer).Elem()
		if n, s := namedStruct(et); s != nil && n != nil {
			return nil, "fields:" + typeKey(n), "", true
		}
		return nil, x.cellHeapName(et), ArraySort(SInt, x.tm.SortOf(et)), true
	case *ssa.FieldAddr:
		pt := a.X.Type().Underlying().(*types.Pointer)
		n, s := namedStruct(pt.Elem())
		// address of a field of a local struct variable?
		if al, h, hs, ok2 := x.rootOfAddr(a.X); ok2 && al != nil {
			return al, h, hs, true
		}
		if n == nil {
			return nil, "", "", false
		}
		fv := s.Field(a.Field)
		// nested: if a.X is itself a FieldAddr (embedded struct value), the root heap is the outer one
		if inner, ok3 := a.X.(*ssa.FieldAddr); ok3 {
			return x.rootOfAddr(inner)
		}
		return nil, x.fieldHeapName(n, fv), ArraySort(SInt, x.tm.SortOf(fv.Type())), true
	case *ssa.IndexAddr:
		if al, h, hs, ok2 := x.rootOfAddr(a.X); ok2 {
			return al, h, hs, true
		}
		// element of a slice value
		return nil, "", "", false
	case *ssa.UnOp:
		return nil, "", "", false
	}
	return nil, "", "", false
}

func (x *Exec) instrModifies(f *Frame, ins ssa.Instruction, mi *modInfo, depth int) {
	switch i := ins.(type) {
	case *ssa.Store:
		al, h, hs, ok := x.rootOfAddr(i.Addr)
		switch {
		case !ok:
			// store through an opaque pointer: a cell or a struct field of an unknown object
			pt, isPtr := i.Addr.Type().Underlying().(*types.Pointer)
			if isPtr {
				if n, s := namedStruct(pt.Elem()); s != nil && n != nil {
					for k := 0; k < s.NumFields(); k++ {
						mi.heaps[x.fieldHeapName(n, s.Field(k))] = ArraySort(SInt, x.tm.SortOf(s.Field(k).Type()))
					}
				} else {
					mi.heaps[x.cellHeapName(pt.Elem())] = ArraySort(SInt, x.tm.SortOf(pt.Elem()))
				}
			}
		case al != nil:
			mi.locals[al] = true
		case strings.HasPrefix(h, "fields:"):
			pt := i.Addr.Type().Underlying().(*types.Pointer)
			if n, s := namedStruct(pt.Elem()); s != nil {
				for k := 0; k < s.NumFields(); k++ {
					mi.heaps[x.fieldHeapName(n, s.Field(k))] = ArraySort(SInt, x.tm.SortOf(s.Field(k).Type()))
				}
			}
		default:
			mi.heaps[h] = hs
		}
	case *ssa.Alloc:
		if i.Heap {
			mi.heaps["$alloc"] = SInt
			et := i.Type().(*types.Pointer).Elem()
			if n, s := namedStruct(et); s != nil && n != nil {
				for k := 0; k < s.NumFields(); k++ {
					mi.heaps[x.fieldHeapName(n, s.Field(k))] = ArraySort(SInt, x.tm.SortOf(s.Field(k).Type()))
				}
			} else {
				mi.heaps[x.cellHeapName(et)] = ArraySort(SInt, x.tm.SortOf(et))
			}
		} else {
			mi.locals[i] = true
		}
	case *ssa.MakeMap:
		mi.heaps["$alloc"] = SInt
		mt := i.Type().Underlying().(*types.Map)
		mi.heaps[x.mapHeapName(mt)] = ArraySort(SInt, x.mapSort(mt))
	case *ssa.MakeSlice, *ssa.MakeClosure, *ssa.MakeInterface:
		mi.heaps["$alloc"] = SInt
	case *ssa.Next:
		if !i.IsString {
			rng := i.Iter.(*ssa.Range)
			mt := rng.X.Type().Underlying().(*types.Map)
			mi.heaps[x.visitedName(rng)] = ArraySort(x.tm.SortOf(mt.Key()), SBool)
		}
	case *ssa.MapUpdate:
		mt := i.Map.Type().Underlying().(*types.Map)
		mi.heaps[x.mapHeapName(mt)] = ArraySort(SInt, x.mapSort(mt))
	case *ssa.Call:
		x.callModifies(f, &i.Call, mi, depth)
	case *ssa.Defer:
		x.callModifies(f, &i.Call, mi, depth)
	case *ssa.Go:
		x.fail("go statement")
	}
}

func (x *Exec) callModifies(f *Frame, c *ssa.CallCommon, mi *modInfo, depth int) {
	if b, ok := c.Value.(*ssa.Builtin); ok {
		switch b.Name() {
		case "delete":
			mt := c.Args[0].Type().Underlying().(*types.Map)
			mi.heaps[x.mapHeapName(mt)] = ArraySort(SInt, x.mapSort(mt))
		case "append":
			mi.heaps["$alloc"] = SInt
		}
		return
	}
	callee := c.StaticCallee()
	if callee == nil {
		mi.heaps["$alloc"] = SInt
		return // callbacks / interface calls: effects come from assumed contracts (none on our heaps)
	}
	if con := x.db.Funcs[relKey(callee)]; con != nil && !con.Inline {
		mi.heaps["$alloc"] = SInt
		// evaluate modifies syntactically: any named heap in the clause counts as whole-heap havoc in loops
		for _, m := range con.Modifies {
			x.modItemHeaps(callee, m, mi)
		}
		for _, fr := range con.Fresh {
			_ = fr
			res := callee.Signature.Results()
			for k := 0; k < res.Len(); k++ {
				if p, ok := res.At(k).Type().Underlying().(*types.Pointer); ok {
					if n, s := namedStruct(p.Elem()); s != nil && n != nil {
						for q := 0; q < s.NumFields(); q++ {
							mi.heaps[x.fieldHeapName(n, s.Field(q))] = ArraySort(SInt, x.tm.SortOf(s.Field(q).Type()))
						}
					}
				}
			}
		}
		return
	}
	if callee.Blocks != nil && x.inlinable(callee) && depth < 4 {
		for _, b := range callee.Blocks {
			for _, ins := range b.Instrs {
				if a, ok := ins.(*ssa.Alloc); ok && !a.Heap {
					continue
				}
				if s, ok := ins.(*ssa.Store); ok {
					if al, _, _, ok2 := x.rootOfAddr(s.Addr); ok2 && al != nil {
						continue // callee local
					}
				}
				x.instrModifies(f, ins, mi, depth+1)
			}
		}
		return
	}
	mi.heaps["$alloc"] = SInt
}

func (x *Exec) modItemHeaps(callee *ssa.Function, m *Expr, mi *modInfo) {
	// conservative: find the static type of the base expression from the callee's signature
	var baseType func(e *Expr) types.Type
	baseType = func(e *Expr) types.Type {
		switch e.Kind {
		case EIdent:
			for _, p := range callee.Params {
				if p.Name() == e.Name {
					return p.Type()
				}
			}
			// functions without a body (external packages): the signature names the parameters
			if r := callee.Signature.Recv(); r != nil && (r.Name() == e.Name || e.Name == "self") {
				return r.Type()
			}
			for k := 0; k < callee.Signature.Params().Len(); k++ {
				if callee.Signature.Params().At(k).Name() == e.Name {
					return callee.Signature.Params().At(k).Type()
				}
			}
		case EField:
			bt := baseType(e.Args[0])
			if bt == nil {
				return nil
			}
			var pk *types.Package
			if callee.Pkg != nil {
				pk = callee.Pkg.Pkg
			}
			obj, _, _ := types.LookupFieldOrMethod(bt, true, pk, e.Name)
			if obj != nil {
				return obj.Type()
			}
		}
		return nil
	}
	switch m.Kind {
	case EField:
		bt := baseType(m.Args[0])
		if bt == nil {
			x.fail("cannot resolve modifies item %s of %s", m, callee)
		}
		if g, hn := x.ghostLookup(bt, m.Name); g != nil {
			mi.heaps[hn] = ArraySort(SInt, x.ghostSort(g).sort)
			return
		}
		if pt, ok := types.Unalias(bt).Underlying().(*types.Pointer); ok {
			if g, hn := x.ghostLookup(pt.Elem(), m.Name); g != nil {
				mi.heaps[hn] = ArraySort(SInt, x.ghostSort(g).sort)
				return
			}
		}
		var pk *types.Package
		if callee.Pkg != nil {
			pk = callee.Pkg.Pkg
		}
		_, index, _ := types.LookupFieldOrMethod(bt, true, pk, m.Name)
		cur := bt
		for k, i := range index {
			p, _ := types.Unalias(cur).Underlying().(*types.Pointer)
			var n *types.Named
			var s *types.Struct
			if p != nil {
				n, s = namedStruct(p.Elem())
			} else {
				n, s = namedStruct(cur)
			}
			if k == len(index)-1 {
				mi.heaps[x.fieldHeapName(n, s.Field(i))] = ArraySort(SInt, x.tm.SortOf(s.Field(i).Type()))
			}
			cur = s.Field(i).Type()
		}
	case ECall:
		switch m.Name {
		case "contents":
			bt := baseType(m.Args[0])
			if mt, ok := bt.Underlying().(*types.Map); ok {
				mi.heaps[x.mapHeapName(mt)] = ArraySort(SInt, x.mapSort(mt))
			}
		case "fields":
			bt := baseType(m.Args[0])
			if p, ok := bt.Underlying().(*types.Pointer); ok {
				if n, s := namedStruct(p.Elem()); s != nil {
					for q := 0; q < s.NumFields(); q++ {
						mi.heaps[x.fieldHeapName(n, s.Field(q))] = ArraySort(SInt, x.tm.SortOf(s.Field(q).Type()))
					}
				}
			}
		case "cell":
			bt := baseType(m.Args[0])
			if p, ok := bt.Underlying().(*types.Pointer); ok {
				mi.heaps[x.cellHeapName(p.Elem())] = ArraySort(SInt, x.tm.SortOf(p.Elem()))
			}
		case "every":
			// the whole heap is written: type names resolve in the callee's package
			pkgPath := ""
			if callee.Pkg != nil {
				pkgPath = callee.Pkg.Pkg.Path()
			} else if callee.Object() != nil && callee.Object().Pkg() != nil {
				pkgPath = callee.Object().Pkg().Path()
			}
			a := m.Args[0]
			if a.Kind == EStr {
				if mt, ok := x.parseSpecTypeIn(a.Name, pkgPath).ty.Underlying().(*types.Map); ok {
					mi.heaps[x.mapHeapName(mt)] = ArraySort(SInt, x.mapSort(mt))
					return
				}
				x.fail("modifies every(%q): not a map type", a.Name)
			}
			tname := ""
			if a.Kind == EField && a.Args[0].Kind == EIdent {
				tname = a.Args[0].Name
			} else if a.Kind == EField && a.Args[0].Kind == EField && a.Args[0].Args[0].Kind == EIdent {
				tname = a.Args[0].Args[0].Name + "." + a.Args[0].Name
			}
			if tname == "" {
				x.fail("modifies every(...) expects Type.field")
			}
			n, st := namedStruct(x.parseSpecTypeIn(tname, pkgPath).ty)
			if st == nil {
				x.fail("modifies every(%s): not a struct type", a)
			}
			for q := 0; q < st.NumFields(); q++ {
				if st.Field(q).Name() == a.Name {
					mi.heaps[x.fieldHeapName(n, st.Field(q))] = ArraySort(SInt, x.tm.SortOf(st.Field(q).Type()))
					return
				}
			}
			x.fail("modifies every(%s): no such field", a)
		}
	}
}

func (x *Exec) inlinable(fn *ssa.Function) bool {
	if fn.Blocks == nil {
		return false
	}
	if fn.Pkg == nil || !strings.HasPrefix(fn.Pkg.Pkg.Path(), modulePath) {
		return false
	}
	n := 0
	for _, b := range fn.Blocks {
		n += len(b.Instrs)
		for _, s := range b.Succs {
			if s.Dominates(b) {
				return false // loops need a contract
			}
		}
	}
	return n <= 120
}

// registerSpecTags gives a tag to every type named in a hastype(x, "T") of the contract's clauses and of
// the spec functions of the package under proof (names that do not resolve there are skipped).
func (x *Exec) registerSpecTags(con *Contract) {
	pkgPath := x.pkg.Pkg.Path()
	var walk func(e *Expr, pkg string)
	walk = func(e *Expr, pkg string) {
		if e == nil {
			return
		}
		if e.Kind == ECall && e.Name == "hastype" && len(e.Args) == 2 && e.Args[1].Kind == EStr {
			func() {
				defer func() { _ = recover() }()
				if t := x.parseSpecTypeIn(e.Args[1].Name, pkg); t.ty != nil {
					x.typeTag(t.ty)
				}
			}()
		}
		for _, a := range e.Args {
			walk(a, pkg)
		}
	}
	for _, cl := range [][]Clause{con.Requires, con.Ensures} {
		for _, c := range cl {
			walk(c.Expr, "")
		}
	}
	var names []string
	for n, sf := range x.db.Specs {
		if sf.PkgPath == pkgPath && sf.Body != nil {
			names = append(names, n)
		}
	}
	sort.Strings(names)
	for _, n := range names {
		walk(x.db.Specs[n].Body, pkgPath)
	}
}

// unaliasedCell: every use of the address-taken local that can be executed before or during the loop is a
// load or a direct store to it -- no pointer to it exists while the loop runs, so only direct stores change
// it there. Uses in blocks from which the loop header is unreachable (e.g. returning its address) are free.
func unaliasedCell(a *ssa.Alloc, li *loopInfo) bool {
	refs := a.Referrers()
	if refs == nil || li.header == nil {
		return false
	}
	reach := map[*ssa.BasicBlock]bool{}
	var reaches func(b *ssa.BasicBlock) bool
	reaches = func(b *ssa.BasicBlock) bool {
		if b == li.header {
			return true
		}
		if done, ok := reach[b]; ok {
			return done
		}
		reach[b] = false
		for _, s := range b.Succs {
			if reaches(s) {
				reach[b] = true
				return true
			}
		}
		return false
	}
	for _, r := range *refs {
		switch i := r.(type) {
		case *ssa.UnOp:
			if i.Op == token.MUL {
				continue
			}
		case *ssa.Store:
			if i.Addr == ssa.Value(a) && i.Val != ssa.Value(a) {
				continue
			}
		case *ssa.DebugRef:
			continue
		}
		if r.Block() == nil || reaches(r.Block()) {
			return false
		}
	}
	return true
}

// storedIn: the loop body contains a direct store to the local.
func storedIn(a *ssa.Alloc, li *loopInfo) bool {
	for b := range li.body {
		for _, ins := range b.Instrs {
			if s, ok := ins.(*ssa.Store); ok && s.Addr == ssa.Value(a) {
				return true
			}
		}
	}
	return false
}
