package main

import (
	"regexp"
	"bufio"
	"encoding/json"
	"fmt"
	"os"
	"path/filepath"
	"sort"
	"strings"
	"time"
)

type knownFinding struct {
	Prop, Obligation, Class, What string
}

func loadKnownFindings(verif string) (known []knownFinding, fixed []string) {
	fh, err := os.Open(filepath.Join(verif, "KNOWN_FINDINGS.txt"))
	if err != nil {
		return nil, nil
	}
	defer fh.Close()
	sc := bufio.NewScanner(fh)
	for sc.Scan() {
		l := strings.TrimSpace(sc.Text())
		switch {
		case strings.HasPrefix(l, "known:"):
			k := knownFinding{}
			rest := strings.TrimSpace(l[6:])
			what := ""
			if i := strings.Index(rest, " -- "); i >= 0 {
				what = strings.TrimSpace(rest[i+4:])
				rest = rest[:i]
			}
			for _, fld := range strings.Fields(rest) {
				kv := strings.SplitN(fld, "=", 2)
				if len(kv) != 2 {
					continue
				}
				switch kv[0] {
				case "property":
					k.Prop = kv[1]
				case "obligation":
					k.Obligation = kv[1]
				case "class":
					k.Class = kv[1]
				}
			}
			k.What = what
			known = append(known, k)
		case strings.HasPrefix(l, "fixed:"):
			fixed = append(fixed, l)
		}
	}
	return
}

type evidence struct {
	PropertyID  string                 `json:"property_id"`
	Tier        string                 `json:"tier"`
	Seed        int                    `json:"seed"`
	Level       string                 `json:"level"`
	Coverage    map[string]interface{} `json:"coverage"`
	Assumptions []string               `json:"assumptions"`
	WallS       float64                `json:"wall_s"`
	Violations  int                    `json:"violations"`
}

func report(f *flags, w *propWork, results []*oblResult, wall time.Duration) int {
	known, _ := loadKnownFindings(f.verif)
	base := loadBaseline(f.verif)
	exit := 0
	var lines []string
	discharged, covers, coverOK := 0, 0, 0
	var failed, undecided, engine []*oblResult
	solverTime := int64(0)
	bySolver := map[string]int{}
	deadExits := map[string]int{}
	liveExits := map[string]int{}
	for _, r := range results {
		solverTime += r.Ms
		switch r.Result {
		case "unsat":
			discharged++
			bySolver[r.Solver]++
		case "covered":
			covers++
			coverOK++
			if r.Kind == "cover-exit" {
				liveExits[r.Func]++
			}
		case "vacuous":
			covers++
			if r.Kind == "cover-exit" {
				deadExits[r.Func]++
				continue
			}
			engine = append(engine, r)
		case "sat", "disagree":
			failed = append(failed, r)
		case "engine-error":
			engine = append(engine, r)
		default:
			if r.Kind == "cover" || r.Kind == "cover-exit" {
				if r.Kind == "cover-exit" {
					liveExits[r.Func]++
				}
				covers++ // satisfiability of the assumptions not decided within the time limit: not an alarm
				continue
			}
			undecided = append(undecided, r)
		}
	}
	// baseline: the obligation set may not shrink or change names silently
	// names are compared modulo what a harmless edit changes: basic-block numbers, path-duplication
	// suffixes and the ordinals of safety obligations (the k-th nil check of a function); what must not
	// disappear silently is a class of obligations (a postcondition, an invariant, the safety checks of a
	// function), which would make the check vacuous
	names := map[string]bool{}
	for _, r := range results {
		names[normObl(r.Name)] = true
	}
	var missing []string
	seenMissing := map[string]bool{}
	for _, n := range base.Props[f.prop] {
		nn := normObl(n)
		if !names[nn] && !seenMissing[nn] {
			seenMissing[nn] = true
			missing = append(missing, n)
		}
	}
	_, hasBase := base.Props[f.prop]

	for _, e := range w.engineErrs {
		lines = append(lines, "ENGINE-ERROR: "+e)
	}
	if f.verbose {
		for _, r := range results {
			lines = append(lines, fmt.Sprintf("  %-9s %-8s %6dms %7dB  %s", r.Result, r.Solver, r.Ms, r.Size, r.Name))
		}
	}
	replayDir := filepath.Join(f.verif, "replays")
	var knownMatched []string
	violations := 0
	for _, r := range append(failed, undecided...) {
		isUndecided := r.Result != "sat" && r.Result != "disagree"
		// undecided obligations that are not in the baseline are not violations (never discharged before)
		inBase := false
		for _, n := range base.Props[f.prop] {
			if n == r.Name || normObl(n) == normObl(r.Name) {
				inBase = true
			}
		}
		if isUndecided && !inBase {
			lines = append(lines, fmt.Sprintf("UNDECIDED-OBLIGATION %s (%s): %s", r.Name, r.Result, r.Src))
			exit = max(exit, 2)
			continue
		}
		_ = os.MkdirAll(replayDir, 0o755)
		rp := filepath.Join(replayDir, sanitize(r.Name)+".json")
		confirmed, replayOut, testSrc := false, "", ""
		if !isUndecided {
			confirmed, replayOut, testSrc = tryReplay(f, w, r)
		}
		// known finding?
		matched := false
		for _, k := range known {
			if k.Prop == f.prop && k.Obligation == r.Name {
				matched = true
				knownMatched = append(knownMatched, r.Name)
				lines = append(lines, fmt.Sprintf("KNOWN-FINDING: property=%s %s (%s)", f.prop, k.What, r.Name))
			}
		}
		if matched {
			continue
		}
		violations++
		rec := map[string]interface{}{
			"property": f.prop, "obligation": r.Name, "kind": r.Kind, "function": r.Func, "clause": r.Src, "position": r.Pos,
			"solver": r.Solver, "solver_result": r.Result, "model": r.model, "solver_output": truncate(r.output, 20000),
			"replay_confirmed": confirmed, "replay_output": truncate(replayOut, 20000), "replay_test": testSrc,
		}
		if isUndecided {
			rec["reason"] = "undischarged-after-change: this obligation discharged on the baseline tree and no solver proves it now"
		}
		data, _ := json.MarshalIndent(rec, "", " ")
		_ = os.WriteFile(rp, append(data, '\n'), 0o644)
		suffix := ""
		if !confirmed {
			suffix = " no-failing-input-found"
		}
		lines = append(lines, fmt.Sprintf("FAILED obligation %s [%s] %s", r.Name, r.Pos, r.Src))
		lines = append(lines, fmt.Sprintf("VIOLATION property=%s replay=%s%s", f.prop, rp, suffix))
		exit = max(exit, 1)
	}
	for fn, n := range deadExits {
		if liveExits[fn] == 0 {
			lines = append(lines, fmt.Sprintf("ENGINE-ERROR: every normal exit of %s is unreachable under its contract's assumptions (%d exits): vacuous proof", fn, n))
			if exit == 0 {
				exit = 2
			}
		}
	}
	for _, r := range engine {
		if r.Result == "vacuous" {
			lines = append(lines, fmt.Sprintf("ENGINE-ERROR: vacuous preconditions (cover query unsat): %s", r.Name))
		} else {
			lines = append(lines, fmt.Sprintf("ENGINE-ERROR: %s: %s", r.Name, r.output))
		}
	}
	if len(engine) > 0 || len(w.engineErrs) > 0 {
		if exit == 0 {
			exit = 2
		}
	}
	if hasBase && len(missing) > 0 {
		lines = append(lines, fmt.Sprintf("ENGINE-ERROR: %d baseline obligations are no longer generated (first: %s); run govc rebaseline only after review", len(missing), missing[0]))
		if exit == 0 {
			exit = 2
		}
	}
	if exit == 2 {
		lines = append(lines, fmt.Sprintf("UNDECIDED property=%s reason=engine-error-or-undecided-obligation", f.prop))
	}
	total := len(results) - covers
	lines = append(lines, fmt.Sprintf("%s: %d obligations, %d discharged, %d failed, %d undecided, %d cover checks (%d ok), %d functions, solver %.1fs, wall %.1fs",
		f.prop, total, discharged, len(failed), len(undecided), covers, coverOK, len(w.funcs), float64(solverTime)/1000, wall.Seconds()))
	for _, l := range lines {
		fmt.Println(l)
	}
	writeEvidence(f, w, results, total, discharged, covers, coverOK, bySolver, solverTime, wall, violations, knownMatched, len(base.Props[f.prop]))
	return exit
}

func writeEvidence(f *flags, w *propWork, results []*oblResult, total, discharged, covers, coverOK int, bySolver map[string]int, solverMs int64, wall time.Duration, violations int, knownMatched []string, baseN int) {
	assume := map[string]bool{}
	for _, x := range w.execs {
		for a := range x.assumptions {
			assume[a] = true
		}
	}
	for _, a := range standingAssumptions {
		assume[a] = true
	}
	var assumptions []string
	for a := range assume {
		assumptions = append(assumptions, a)
	}
	sort.Strings(assumptions)
	var samples []interface{}
	kinds := map[string]int{}
	for _, r := range results {
		kinds[r.Kind]++
	}
	for i, r := range results {
		if i%max(1, len(results)/12) == 0 || r.Result != "unsat" {
			samples = append(samples, map[string]interface{}{"name": r.Name, "kind": r.Kind, "clause": r.Src, "result": r.Result, "solver": r.Solver, "ms": r.Ms})
		}
		if len(samples) > 40 {
			break
		}
	}
	funcs := append([]string{}, w.funcs...)
	sort.Strings(funcs)
	var lemmas []string
	for _, r := range results {
		if r.Kind == "lemma" {
			lemmas = append(lemmas, r.Name)
		}
	}
	ev := evidence{
		PropertyID: f.prop, Tier: f.tier, Seed: f.seed, Level: "proof",
		Coverage: map[string]interface{}{
			"obligations":              total,
			"discharged":               discharged,
			"checker_cmd":              fmt.Sprintf("govc check -prop %s -tier %s (VC generation over go/ssa of /repo's working tree; z3-new 5.1.0, z3 4.8.12, cvc5 1.0 raced per obligation)", f.prop, f.tier),
			"trusted_base":             trustedBase,
			"functions_under_contract": funcs,
			"lemmas":                   lemmas,
			"obligation_kinds":         kinds,
			"discharged_by_solver":     bySolver,
			"solver_time_s":            float64(solverMs) / 1000,
			"cover_checks":             covers,
			"cover_checks_sat":         coverOK,
			"baseline_count":           baseN,
			"known_findings_matched":   knownMatched,
			"engine_errors":            w.engineErrs,
			"samples":                  samples,
			"contract_files":           w.db.Files,
		},
		Assumptions: assumptions,
		WallS:       wall.Seconds(),
		Violations:  violations,
	}
	_ = os.MkdirAll(filepath.Join(f.verif, "evidence"), 0o755)
	data, _ := json.MarshalIndent(ev, "", " ")
	_ = os.WriteFile(filepath.Join(f.verif, "evidence", f.prop+".json"), append(data, '\n'), 0o644)
}

var trustedBase = []string{
	"go/packages, go/types, go/ssa (golang.org/x/tools v0.29.0, NaiveForm) lower the source faithfully",
	"govc's semantics of the SSA instructions it accepts (DESIGN.md appendix A)",
	"SMT solvers z3 4.8.12, z3 5.1.0, cvc5 1.0",
	"assumed contracts of external functions under /verif/assumed/*.spec",
}

var standingAssumptions = []string{
	"sequential reasoning: mutexes are no-ops, no claim about data races",
	"slices have value semantics (no element writes to shared slices, cap not modelled)",
	"goroutines, scheduling, GC, memory exhaustion are not modelled",
	"integers are mathematical with explicit two's-complement wrap at every Go operation (arith checked adds no-wrap obligations)",
	"string/[]byte contents are an uninterpreted sort with len/prefix/concat facts",
}

func cmdReplay(args []string) int {
	if len(args) < 1 {
		usage()
	}
	data, err := os.ReadFile(args[0])
	if err != nil {
		fmt.Fprintln(os.Stderr, err)
		return 2
	}
	var rec map[string]interface{}
	if err := json.Unmarshal(data, &rec); err != nil {
		fmt.Fprintln(os.Stderr, err)
		return 2
	}
	src, _ := rec["replay_test"].(string)
	fn, _ := rec["function"].(string)
	kind, _ := rec["kind"].(string)
	if src == "" {
		fmt.Println("replay file carries no generated test (no-failing-input-found); solver output:")
		fmt.Println(rec["solver_output"])
		return 1
	}
	db, err := LoadContracts("/repo", "/verif/assumed")
	if err != nil {
		fmt.Fprintln(os.Stderr, err)
		return 2
	}
	ld, err := Load("/repo", []string{pkgOfKey(fn)}, nil)
	if err != nil {
		fmt.Fprintln(os.Stderr, err)
		return 2
	}
	if ld.funcs[fn] == nil || db.Funcs[fn] == nil {
		fmt.Println("function or contract no longer exists:", fn)
		return 2
	}
	x, err := VerifyFunction(ld, db, ld.funcs[fn], db.Funcs[fn])
	if err != nil {
		fmt.Fprintln(os.Stderr, err)
		return 2
	}
	ran, out := runReplayTest("/repo", pkgOfKey(fn), src)
	fmt.Println(out)
	if !ran {
		fmt.Println("replay: test did not run")
		return 2
	}
	ok, detail := x.judgeReplay(&oblResult{q: &Query{Ob: &Obligation{Kind: kind}}}, out)
	fmt.Println(detail)
	if ok {
		fmt.Println("replay: violation reproduced on the current tree")
		return 1
	}
	fmt.Println("replay: not reproduced on the current tree")
	return 0
}

var (
	reBlockSuffix = regexp.MustCompile(`@b[0-9]+(~[0-9]+)?`)
	reDupSuffix   = regexp.MustCompile(`~[0-9]+$`)
	reOrdinal     = regexp.MustCompile(`#[0-9]+`)
)

// normObl: the name of an obligation without the parts that depend on the layout of the code.
func normObl(n string) string {
	n = reBlockSuffix.ReplaceAllString(n, "")
	n = reDupSuffix.ReplaceAllString(n, "")
	keep := strings.Contains(n, "/post") || strings.Contains(n, "/inv-entry") || strings.Contains(n, "/inv-pres") || strings.Contains(n, "/lemma")
	if !keep {
		n = reOrdinal.ReplaceAllString(n, "")
	}
	// exit ordinals of postconditions (post:L#k is the k-th exit): a refactoring may add or merge exits
	if strings.Contains(n, "/post") {
		n = reOrdinal.ReplaceAllString(n, "")
	}
	return n
}
