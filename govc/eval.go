package main

// Concrete evaluation of spec expressions on the reflective dumps produced by a replay run.

import (
	"fmt"
	"math/big"
	"sort"
)

type evalEnv struct {
	x      *Exec
	vars   map[string]interface{}
	cur    map[string]interface{}
	pre    map[string]interface{}
	depth  int
	maxLen int
	keys   []string
}

type evalErr struct{ msg string }

func efail(format string, args ...interface{}) { panic(evalErr{fmt.Sprintf(format, args...)}) }

func (x *Exec) evalClause(e *Expr, pre, post map[string]interface{}) (res bool, err error) {
	defer func() {
		if r := recover(); r != nil {
			if ee, ok := r.(evalErr); ok {
				err = fmt.Errorf("%s", ee.msg)
				return
			}
			if se, ok := r.(specErr); ok {
				err = fmt.Errorf("%s", se.msg)
				return
			}
			panic(r)
		}
	}()
	env := &evalEnv{x: x, vars: map[string]interface{}{}, cur: post, pre: pre}
	env.scan(pre)
	env.scan(post)
	v := env.eval(e)
	b, ok := v.(bool)
	if !ok {
		return false, fmt.Errorf("clause is not boolean")
	}
	return b, nil
}

func (ev *evalEnv) scan(v interface{}) {
	switch t := v.(type) {
	case map[string]interface{}:
		if l, ok := t["$len"].(float64); ok && int(l) > ev.maxLen {
			ev.maxLen = int(l)
		}
		if m, ok := t["$map"].(map[string]interface{}); ok {
			for k := range m {
				ev.keys = append(ev.keys, k)
			}
		}
		for _, c := range t {
			ev.scan(c)
		}
	case []interface{}:
		for _, c := range t {
			ev.scan(c)
		}
	}
}

func (ev *evalEnv) lookup(name string) (interface{}, bool) {
	if v, ok := ev.vars[name]; ok {
		return v, true
	}
	if v, ok := ev.cur[name]; ok {
		return norm(v), true
	}
	// result aliases
	if ev.x != nil {
		for i, r := range ev.x.results {
			if r.name == name || (name == "result" && len(ev.x.results) == 1) {
				if v, ok := ev.cur[fmt.Sprintf("result%d", i)]; ok {
					return norm(v), true
				}
			}
		}
	}
	return nil, false
}

// norm converts dumped scalars: decimal strings are integers.
func norm(v interface{}) interface{} {
	switch t := v.(type) {
	case string:
		if n, ok := new(big.Int).SetString(t, 10); ok {
			return n
		}
		return t
	case map[string]interface{}:
		if s, ok := t["$str"]; ok {
			return strVal{s.(string), false}
		}
		if s, ok := t["$bytes"]; ok {
			_, isNil := t["$nil"]
			return strVal{s.(string), isNil}
		}
		return t
	}
	return v
}

type strVal struct {
	s     string
	isNil bool
}

func (ev *evalEnv) eval(e *Expr) interface{} {
	switch e.Kind {
	case EInt:
		n, ok := new(big.Int).SetString(e.Name, 0)
		if !ok {
			efail("bad int %s", e.Name)
		}
		return n
	case EBool:
		return e.Name == "true"
	case EStr:
		return strVal{e.Name, false}
	case ENil:
		return nil
	case EIdent:
		if v, ok := ev.lookup(e.Name); ok {
			return v
		}
		if src, ok := ev.x.db.Consts[e.Name]; ok {
			ex, err := ParseExpr(src)
			if err != nil {
				efail("const")
			}
			return ev.eval(ex)
		}
		efail("unknown identifier %s", e.Name)
	case EUnary:
		v := ev.eval(e.Args[0])
		switch e.Name {
		case "!":
			return !asBool(v)
		case "-":
			return new(big.Int).Neg(asInt(v))
		}
	case EBinary:
		return ev.binary(e)
	case ECond:
		if asBool(ev.eval(e.Args[0])) {
			return ev.eval(e.Args[1])
		}
		return ev.eval(e.Args[2])
	case ECall:
		return ev.call(e)
	case EField:
		base := ev.eval(e.Args[0])
		m, ok := base.(map[string]interface{})
		if !ok {
			efail("field %s of non-object", e.Name)
		}
		if v, ok := fieldOf(m, e.Name, 0); ok {
			return norm(v)
		}
		efail("no field %s", e.Name)
	case EIndex:
		base := ev.eval(e.Args[0])
		idx := ev.eval(e.Args[1])
		switch b := base.(type) {
		case map[string]interface{}:
			if l, ok := b["$slice"].([]interface{}); ok {
				i := asInt(idx)
				if !i.IsInt64() || i.Int64() < 0 || i.Int64() >= int64(len(l)) {
					efail("index out of dumped range")
				}
				return norm(l[i.Int64()])
			}
			if m, ok := b["$map"].(map[string]interface{}); ok {
				k, ok := idx.(strVal)
				if !ok {
					efail("non-string map key")
				}
				v, has := m[k.s]
				if !has {
					efail("map key absent") // value of an absent key is unspecified in specs
				}
				return norm(v)
			}
		case strVal:
			i := asInt(idx)
			if !i.IsInt64() || i.Int64() < 0 || i.Int64() >= int64(len(b.s)) {
				efail("string index out of range")
			}
			return big.NewInt(int64(b.s[i.Int64()]))
		}
		efail("cannot index")
	case EQuant:
		return ev.quant(e)
	}
	efail("cannot evaluate %s", e)
	return nil
}

func fieldOf(m map[string]interface{}, name string, depth int) (interface{}, bool) {
	if v, ok := m[name]; ok {
		return v, true
	}
	if depth > 3 {
		return nil, false
	}
	var ks []string
	for k := range m {
		ks = append(ks, k)
	}
	sort.Strings(ks)
	for _, k := range ks {
		if sub, ok := m[k].(map[string]interface{}); ok && len(k) > 0 && k[0] != '$' {
			if v, ok := fieldOf(sub, name, depth+1); ok {
				return v, true
			}
		}
	}
	return nil, false
}

func asBool(v interface{}) bool {
	b, ok := v.(bool)
	if !ok {
		efail("expected bool")
	}
	return b
}

func asInt(v interface{}) *big.Int {
	n, ok := v.(*big.Int)
	if !ok {
		efail("expected integer, got %T", v)
	}
	return n
}

func valEq(a, b interface{}) bool {
	switch x := a.(type) {
	case nil:
		switch y := b.(type) {
		case nil:
			return true
		case strVal:
			return y.isNil
		case map[string]interface{}:
			if _, ok := y["$nil"]; ok {
				return true
			}
			return false
		}
		return false
	case *big.Int:
		y, ok := b.(*big.Int)
		if !ok {
			efail("comparing integer with %T", b)
		}
		return x.Cmp(y) == 0
	case bool:
		y, ok := b.(bool)
		if !ok {
			efail("comparing bool with %T", b)
		}
		return x == y
	case strVal:
		if b == nil {
			return x.isNil
		}
		y, ok := b.(strVal)
		if !ok {
			efail("comparing string with %T", b)
		}
		return x.s == y.s
	case map[string]interface{}:
		if b == nil {
			_, isNil := x["$nil"]
			return isNil
		}
		y, ok := b.(map[string]interface{})
		if !ok {
			efail("comparing object with %T", b)
		}
		px, okx := x["$ptr"]
		py, oky := y["$ptr"]
		if okx && oky {
			return px == py
		}
		efail("comparing composite values")
	}
	efail("cannot compare %T", a)
	return false
}

func (ev *evalEnv) binary(e *Expr) interface{} {
	switch e.Name {
	case "==>":
		if !asBool(ev.eval(e.Args[0])) {
			return true
		}
		return asBool(ev.eval(e.Args[1]))
	case "<==>":
		return asBool(ev.eval(e.Args[0])) == asBool(ev.eval(e.Args[1]))
	case "&&":
		if !asBool(ev.eval(e.Args[0])) {
			return false
		}
		return asBool(ev.eval(e.Args[1]))
	case "||":
		if asBool(ev.eval(e.Args[0])) {
			return true
		}
		return asBool(ev.eval(e.Args[1]))
	case "in":
		k := ev.eval(e.Args[0])
		m, ok := ev.eval(e.Args[1]).(map[string]interface{})
		if !ok {
			efail("in: not a map")
		}
		mm, ok := m["$map"].(map[string]interface{})
		if !ok {
			efail("in: not a map")
		}
		ks, ok := k.(strVal)
		if !ok {
			efail("in: non-string key")
		}
		_, has := mm[ks.s]
		return has
	case "==":
		return valEq(ev.eval(e.Args[0]), ev.eval(e.Args[1]))
	case "!=":
		return !valEq(ev.eval(e.Args[0]), ev.eval(e.Args[1]))
	}
	a := asInt(ev.eval(e.Args[0]))
	b := asInt(ev.eval(e.Args[1]))
	switch e.Name {
	case "<":
		return a.Cmp(b) < 0
	case "<=":
		return a.Cmp(b) <= 0
	case ">":
		return a.Cmp(b) > 0
	case ">=":
		return a.Cmp(b) >= 0
	case "+":
		return new(big.Int).Add(a, b)
	case "-":
		return new(big.Int).Sub(a, b)
	case "*":
		return new(big.Int).Mul(a, b)
	case "/", "%":
		if b.Sign() == 0 {
			efail("division by zero in spec")
		}
		q, m := new(big.Int).DivMod(a, b, new(big.Int)) // Euclidean, as SMT-LIB div/mod
		if e.Name == "/" {
			return q
		}
		return m
	case "<<":
		return new(big.Int).Lsh(a, uint(b.Int64()))
	case ">>":
		return new(big.Int).Rsh(a, uint(b.Int64()))
	}
	efail("operator %s", e.Name)
	return nil
}

func (ev *evalEnv) call(e *Expr) interface{} {
	switch e.Name {
	case "old":
		n := *ev
		n.cur = ev.pre
		return n.eval(e.Args[0])
	case "len":
		v := ev.eval(e.Args[0])
		switch t := v.(type) {
		case strVal:
			return big.NewInt(int64(len(t.s)))
		case map[string]interface{}:
			if l, ok := t["$len"].(float64); ok {
				return big.NewInt(int64(l))
			}
		case nil:
			return big.NewInt(0)
		}
		efail("len")
	case "min", "max":
		a := asInt(ev.eval(e.Args[0]))
		for _, r := range e.Args[1:] {
			b := asInt(ev.eval(r))
			if (e.Name == "min" && b.Cmp(a) < 0) || (e.Name == "max" && b.Cmp(a) > 0) {
				a = b
			}
		}
		return a
	case "int", "uint64", "int64", "uint32", "uint":
		return ev.eval(e.Args[0])
	case "isnil":
		return valEq(ev.eval(e.Args[0]), nil)
	case "hasPrefix", "str_prefix":
		a, ok1 := ev.eval(e.Args[0]).(strVal)
		b, ok2 := ev.eval(e.Args[1]).(strVal)
		if !ok1 || !ok2 {
			efail("hasPrefix on non-strings")
		}
		return len(a.s) >= len(b.s) && a.s[:len(b.s)] == b.s
	case "concat", "str_concat":
		a, ok1 := ev.eval(e.Args[0]).(strVal)
		b, ok2 := ev.eval(e.Args[1]).(strVal)
		if !ok1 || !ok2 {
			efail("concat on non-strings")
		}
		return strVal{a.s + b.s, false}
	}
	sf, ok := ev.x.db.Specs[e.Name]
	if !ok || sf.Body == nil {
		efail("cannot evaluate %s concretely", e.Name)
	}
	if sf.Rec && ev.depth > 200 {
		efail("recursion too deep")
	}
	vars := map[string]interface{}{}
	for i, p := range sf.Params {
		vars[p.Name] = ev.eval(e.Args[i])
	}
	n := *ev
	n.vars = vars
	n.depth = ev.depth + 1
	if n.depth > 400 {
		efail("expansion too deep")
	}
	return n.eval(sf.Body)
}

func (ev *evalEnv) quant(e *Expr) interface{} {
	universal := e.Name == "forall"
	// domains
	var doms [][]interface{}
	for _, q := range e.Vars {
		switch q.Type {
		case "int", "Int", "", "uint64", "int64":
			var d []interface{}
			for i := -1; i <= ev.maxLen+1 && i < 80; i++ {
				d = append(d, big.NewInt(int64(i)))
			}
			doms = append(doms, d)
		case "string", "Str", "[]byte":
			var d []interface{}
			seen := map[string]bool{}
			for _, k := range ev.keys {
				if !seen[k] {
					seen[k] = true
					d = append(d, strVal{k, false})
				}
			}
			d = append(d, strVal{"\x00govc-absent-key", false})
			doms = append(doms, d)
		default:
			efail("quantifier over %s cannot be enumerated", q.Type)
		}
	}
	idx := make([]int, len(doms))
	for {
		vars := map[string]interface{}{}
		for k, v := range ev.vars {
			vars[k] = v
		}
		for i, q := range e.Vars {
			vars[q.Name] = doms[i][idx[i]]
		}
		n := *ev
		n.vars = vars
		var r bool
		func() {
			defer func() {
				if rec := recover(); rec != nil {
					if _, ok := rec.(evalErr); ok {
						// an instance that cannot be evaluated (e.g. index outside the dump) is skipped:
						// guards normally exclude it; treat as vacuous
						r = universal
						return
					}
					panic(rec)
				}
			}()
			r = asBool(n.eval(e.Args[0]))
		}()
		if universal && !r {
			return false
		}
		if !universal && r {
			return true
		}
		k := len(doms) - 1
		for k >= 0 {
			idx[k]++
			if idx[k] < len(doms[k]) {
				break
			}
			idx[k] = 0
			k--
		}
		if k < 0 {
			break
		}
	}
	return universal
}
