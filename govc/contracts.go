package main

// Contract files: //@ comment lines in /repo/<pkg>/verif_contracts.go (guarded by
// the build tag "verif") and assumed contracts for external code in
// /verif/assumed/*.spec (same syntax, "//@" prefix optional).

import (
	"fmt"
	"os"
	"path/filepath"
	"regexp"
	"sort"
	"strconv"
	"strings"
)

type Clause struct {
	Tags  []string
	Expr  *Expr
	Src   string
	File  string
	Line  int
	Label string // optional label: "ensures T1: expr"
}

type LoopSpec struct {
	Invariants []Clause
	Decreases  *Clause
	Modifies   []*Expr // pre-existing objects the loop may write (default: none)
}

type Contract struct {
	Key        string
	Tags       []string
	File       string
	Line       int
	Requires   []Clause
	Ensures    []Clause
	XEnsures   []Clause // must hold at every panic exit
	PanicsIf   []Clause // panic exits allowed only under this condition
	Modifies   []*Expr
	ModSet     bool // a modifies clause was given ("modifies nothing" = empty set)
	Loops      map[int]*LoopSpec
	Arith      string // "wrapping" (default) or "checked"
	Trusted    bool   // assumed, not verified (external code or explicitly trusted)
	Inline     bool   // always inline at call sites instead of using the contract
	NoSafety   bool
	Pure       bool     // no heap effect, result unconstrained unless ensures
	Fresh      []string // result names that are freshly allocated objects
	Assumes    []Clause // explicit assumptions (listed in evidence)
	RecvNotNil bool
	GhostExit  []GhostAssign // ghost assignments performed at every normal exit
	Opaque     map[string]bool // predicates kept as atoms inside this function\'s proof (opaque / reveal)
	Asserts    []AssertClause // mid-function assertions (proved, then assumed) after the k-th call of a callee
	Hybrid     bool
	Uses       []string // axioms assumed at entry
	Ghosts     []GhostVar
	GhostUpd   []GhostUpdate
}

// GhostVar is a ghost local of the function under proof (spec-only state); GhostUpdate assigns it
// right after the k-th call (static order) of a callee or builtin.
type GhostVar struct {
	Name string
	Type string
	Init *Expr
}

type GhostUpdate struct {
	Callee string
	K      int
	Name   string
	Value  *Expr
	Src    string
}

type AssertClause struct {
	Callee string
	K      int
	Clause Clause
}

type GhostAssign struct {
	Target *Expr // x.ghostfield
	Value  *Expr
	Src    string
}

type GhostField struct {
	Struct  string // struct type name (in the declaring package)
	Name    string
	Type    string // spec type
	PkgPath string
}

type SpecFn struct {
	Name    string
	Params  []QVar
	Ret     string
	Body    *Expr // nil = uninterpreted
	IsPred  bool
	File    string
	Line    int
	Rec     bool
	Unfolds int
	PkgPath string
	Reads   []string // heaps an uninterpreted function depends on: Struct.field, map[K]V
}

type Lemma struct {
	Name string
	Tags []string
	Expr *Expr
	Src  string
	File string
	Line int
	Uses []string
}

// Axiom: a definitional axiom of an uninterpreted spec function (assumed, listed in the evidence).
type Axiom struct {
	Name    string
	Expr    *Expr
	Src     string
	File    string
	Line    int
	PkgPath string
}

type ContractDB struct {
	Axioms  map[string]*Axiom
	Funcs   map[string]*Contract
	Specs   map[string]*SpecFn
	Lemmas  []*Lemma
	PurePkg map[string]bool // packages whose functions are assumed effect-free with unconstrained results
	Files   []string
	Consts  map[string]string      // named spec constants
	Ghosts  map[string]*GhostField // "pkgpath.Struct.field"
}

func NewContractDB() *ContractDB {
	return &ContractDB{Funcs: map[string]*Contract{}, Specs: map[string]*SpecFn{}, PurePkg: map[string]bool{}, Consts: map[string]string{}, Ghosts: map[string]*GhostField{}}
}

const modulePath = "github.com/streamingfast/substreams"

var tagRe = regexp.MustCompile(`\[(C[0-9]+(?:,\s*C[0-9]+)*)\]`)

var clauseKeywords = map[string]bool{"requires": true, "ensures": true, "xensures": true, "panics_if": true, "modifies": true,
	"loop": true, "arith": true, "trusted": true, "inline": true, "nosafety": true, "pure": true, "fresh": true, "assume": true, "ghost_exit": true, "opaque": true, "assert": true, "ghost": true, "quantifiers": true, "uses": true}

var topKeywords = map[string]bool{"axiom": true, "ghostfield": true, "func": true, "spec": true, "pred": true, "lemma": true, "purepkg": true, "const": true, "uninterp": true}

type rawLine struct {
	text string
	line int
}

// readContractLines extracts the //@ lines (or all non-comment lines of .spec files).
func readContractLines(path string) ([]rawLine, error) {
	data, err := os.ReadFile(path)
	if err != nil {
		return nil, err
	}
	isSpec := strings.HasSuffix(path, ".spec")
	var out []rawLine
	for i, l := range strings.Split(string(data), "\n") {
		t := strings.TrimSpace(l)
		if strings.HasPrefix(t, "//@") {
			out = append(out, rawLine{strings.TrimRight(t[3:], " \t"), i + 1})
		} else if isSpec && t != "" && !strings.HasPrefix(t, "#") && !strings.HasPrefix(t, "//") {
			out = append(out, rawLine{strings.TrimRight(l, " \t"), i + 1})
		}
	}
	return out, nil
}

func firstWord(s string) string {
	s = strings.TrimSpace(s)
	for i, c := range s {
		if c == ' ' || c == '\t' || c == '(' || c == ':' {
			return s[:i]
		}
	}
	return s
}

func extractTags(s string) ([]string, string) {
	var tags []string
	for {
		loc := tagRe.FindStringSubmatchIndex(s)
		if loc == nil {
			break
		}
		for _, t := range strings.Split(s[loc[2]:loc[3]], ",") {
			tags = append(tags, strings.TrimSpace(t))
		}
		s = s[:loc[0]] + s[loc[1]:]
	}
	return tags, s
}

func (db *ContractDB) LoadFile(path string, trusted bool, pkgPath string) error {
	lines, err := readContractLines(path)
	if err != nil {
		return err
	}
	db.Files = append(db.Files, path)
	// group into items: a top-level item starts with a top keyword; inside a func,
	// clause keywords start clauses; anything else continues the previous clause/item.
	type item struct {
		head  string
		line  int
		parts []rawLine // clause lines (func only)
	}
	var items []*item
	var cur *item
	for _, rl := range lines {
		w := firstWord(rl.text)
		switch {
		case topKeywords[w]:
			cur = &item{head: strings.TrimSpace(rl.text), line: rl.line}
			items = append(items, cur)
		case cur == nil:
			return fmt.Errorf("%s:%d: clause outside of an item", path, rl.line)
		case strings.HasPrefix(cur.head, "func") && clauseKeywords[w]:
			cur.parts = append(cur.parts, rawLine{strings.TrimSpace(rl.text), rl.line})
		default:
			// continuation
			if strings.HasPrefix(cur.head, "func") && len(cur.parts) > 0 {
				cur.parts[len(cur.parts)-1].text += " " + strings.TrimSpace(rl.text)
			} else {
				cur.head += " " + strings.TrimSpace(rl.text)
			}
		}
	}
	for _, it := range items {
		w := firstWord(it.head)
		rest := strings.TrimSpace(it.head[len(w):])
		switch w {
		case "ghostfield":
			// ghostfield Struct.name type
			fl := strings.Fields(rest)
			if len(fl) < 2 || !strings.Contains(fl[0], ".") {
				return fmt.Errorf("%s:%d: ghostfield Struct.name type", path, it.line)
			}
			gp := pkgPath
			if k := strings.Index(fl[0], "::"); k >= 0 {
				gp = fl[0][:k]
				fl[0] = fl[0][k+2:]
			}
			i := strings.Index(fl[0], ".")
			g := &GhostField{Struct: fl[0][:i], Name: fl[0][i+1:], Type: strings.Join(fl[1:], " "), PkgPath: gp}
			db.Ghosts[gp+"."+g.Struct+"."+g.Name] = g
		case "purepkg":
			for _, p := range strings.Fields(rest) {
				db.PurePkg[p] = true
			}
		case "const":
			// const NAME := expr
			i := strings.Index(rest, ":=")
			if i < 0 {
				return fmt.Errorf("%s:%d: const needs :=", path, it.line)
			}
			db.Consts[strings.TrimSpace(rest[:i])] = strings.TrimSpace(rest[i+2:])
		case "spec", "pred", "uninterp":
			sf, err := parseSpecFn(w, rest)
			if err != nil {
				return fmt.Errorf("%s:%d: %v", path, it.line, err)
			}
			sf.File, sf.Line = path, it.line
			sf.PkgPath = pkgPath
			if _, dup := db.Specs[sf.Name]; dup {
				return fmt.Errorf("%s:%d: duplicate spec function %s", path, it.line, sf.Name)
			}
			db.Specs[sf.Name] = sf
		case "axiom":
			i := strings.Index(rest, ":")
			if i < 0 {
				return fmt.Errorf("%s:%d: axiom needs ':'", path, it.line)
			}
			name := strings.TrimSpace(rest[:i])
			src := strings.TrimSpace(rest[i+1:])
			e, err := ParseExpr(src)
			if err != nil {
				return fmt.Errorf("%s:%d: %v", path, it.line, err)
			}
			if db.Axioms == nil {
				db.Axioms = map[string]*Axiom{}
			}
			db.Axioms[name] = &Axiom{Name: name, Expr: e, Src: src, File: path, Line: it.line, PkgPath: pkgPath}
		case "lemma":
			tags, r := extractTags(rest)
			i := strings.Index(r, ":")
			if i < 0 {
				return fmt.Errorf("%s:%d: lemma needs ':'", path, it.line)
			}
			name := strings.TrimSpace(r[:i])
			src := strings.TrimSpace(r[i+1:])
			e, err := ParseExpr(src)
			if err != nil {
				return fmt.Errorf("%s:%d: %v", path, it.line, err)
			}
			db.Lemmas = append(db.Lemmas, &Lemma{Name: name, Tags: tags, Expr: e, Src: src, File: path, Line: it.line})
		case "func":
			tags, r := extractTags(rest)
			key := strings.TrimSpace(r)
			if pkgPath != "" && !strings.Contains(key, "::") {
				key = pkgPath + "::" + key
			}
			c := &Contract{Key: key, Tags: tags, File: path, Line: it.line, Loops: map[int]*LoopSpec{}, Trusted: trusted, Arith: "wrapping"}
			for _, p := range it.parts {
				if err := c.addClause(p, path); err != nil {
					return fmt.Errorf("%s:%d: %v", path, p.line, err)
				}
			}
			if _, dup := db.Funcs[key]; dup {
				return fmt.Errorf("%s:%d: duplicate contract for %s", path, it.line, key)
			}
			db.Funcs[key] = c
		}
	}
	return nil
}

var labelRe = regexp.MustCompile(`^([A-Za-z][A-Za-z0-9_]*):\s`)

func (c *Contract) mkClause(text, path string, line int) (Clause, error) {
	tags, r := extractTags(text)
	r = strings.TrimSpace(r)
	label := ""
	if m := labelRe.FindStringSubmatch(r); m != nil {
		label = m[1]
		r = strings.TrimSpace(r[len(m[0]):])
	}
	e, err := ParseExpr(r)
	if err != nil {
		return Clause{}, err
	}
	if len(tags) == 0 {
		tags = c.Tags
	}
	return Clause{Tags: tags, Expr: e, Src: r, File: path, Line: line, Label: label}, nil
}

func (c *Contract) addClause(p rawLine, path string) error {
	w := firstWord(p.text)
	rest := strings.TrimSpace(p.text[len(w):])
	switch w {
	case "requires", "ensures", "xensures", "panics_if", "assume":
		cl, err := c.mkClause(rest, path, p.line)
		if err != nil {
			return err
		}
		switch w {
		case "requires":
			c.Requires = append(c.Requires, cl)
		case "ensures":
			c.Ensures = append(c.Ensures, cl)
		case "xensures":
			c.XEnsures = append(c.XEnsures, cl)
		case "panics_if":
			c.PanicsIf = append(c.PanicsIf, cl)
		case "assume":
			c.Assumes = append(c.Assumes, cl)
		}
	case "modifies":
		c.ModSet = true
		if rest == "nothing" {
			return nil
		}
		for _, part := range splitTopLevel(rest, ',') {
			e, err := ParseExpr(strings.TrimSpace(part))
			if err != nil {
				return err
			}
			c.Modifies = append(c.Modifies, e)
		}
	case "loop":
		f := strings.Fields(rest)
		if len(f) < 3 {
			return fmt.Errorf("loop clause: want 'loop <k> invariant|decreases <expr>'")
		}
		k, err := strconv.Atoi(f[0])
		if f[0] == "*" {
			k, err = -1, nil // every loop of the function
		}
		if err != nil {
			return fmt.Errorf("loop ordinal: %v", err)
		}
		body := strings.TrimSpace(rest[strings.Index(rest, f[1])+len(f[1]):])
		if f[1] == "modifies" {
			ls := c.Loops[k]
			if ls == nil {
				ls = &LoopSpec{}
				c.Loops[k] = ls
			}
			for _, part := range splitTopLevel(body, ',') {
				e, err := ParseExpr(strings.TrimSpace(part))
				if err != nil {
					return err
				}
				ls.Modifies = append(ls.Modifies, e)
			}
			return nil
		}
		cl, err := c.mkClause(body, path, p.line)
		if err != nil {
			return err
		}
		ls := c.Loops[k]
		if ls == nil {
			ls = &LoopSpec{}
			c.Loops[k] = ls
		}
		switch f[1] {
		case "invariant":
			ls.Invariants = append(ls.Invariants, cl)
		case "decreases":
			ls.Decreases = &cl
		default:
			return fmt.Errorf("unknown loop clause %q", f[1])
		}
	case "assert":
		// assert after <callee>[#k]: <expr>
		m := regexp.MustCompile(`^after\s+([A-Za-z0-9_.$]+)(?:#([0-9]+))?\s*:\s*(.*)$`).FindStringSubmatch(rest)
		if m == nil {
			return fmt.Errorf("assert clause: want 'assert after <callee>[#k]: <expr>'")
		}
		k := 0
		if m[2] != "" {
			k, _ = strconv.Atoi(m[2])
		}
		cl, err := c.mkClause(m[3], path, p.line)
		if err != nil {
			return err
		}
		c.Asserts = append(c.Asserts, AssertClause{Callee: m[1], K: k, Clause: cl})
	case "opaque":
		if c.Opaque == nil {
			c.Opaque = map[string]bool{}
		}
		for _, n := range strings.FieldsFunc(rest, func(r rune) bool { return r == ',' || r == ' ' }) {
			c.Opaque[n] = true
		}
	case "ghost":
		if m := regexp.MustCompile(`^after\s+set\s+([A-Za-z_][A-Za-z0-9_]*)\s*:\s*([A-Za-z_][A-Za-z0-9_]*)\s*:=\s*(.*)$`).FindStringSubmatch(rest); m != nil {
			// ghost after set <local>: x := e   -- right after every assignment to the named local
			v, err := ParseExpr(strings.TrimSpace(m[3]))
			if err != nil {
				return err
			}
			c.GhostUpd = append(c.GhostUpd, GhostUpdate{Callee: "set:" + m[1], K: -1, Name: m[2], Value: v, Src: rest})
		} else if m := regexp.MustCompile(`^at\s+exit\s*:\s*([A-Za-z_][A-Za-z0-9_]*)\s*:=\s*(.*)$`).FindStringSubmatch(rest); m != nil {
			// ghost at exit: x := e   -- at every normal exit, with the locals that exist there
			v, err := ParseExpr(strings.TrimSpace(m[2]))
			if err != nil {
				return err
			}
			c.GhostUpd = append(c.GhostUpd, GhostUpdate{Callee: "exit", K: -1, Name: m[1], Value: v, Src: rest})
		} else if m := regexp.MustCompile(`^after\s+([A-Za-z0-9_.$]+)(?:#([0-9]+))?\s*:\s*([A-Za-z_][A-Za-z0-9_]*)\s*:=\s*(.*)$`).FindStringSubmatch(rest); m != nil {
			k := 0
			if m[2] != "" {
				k, _ = strconv.Atoi(m[2])
			}
			v, err := ParseExpr(strings.TrimSpace(m[4]))
			if err != nil {
				return err
			}
			c.GhostUpd = append(c.GhostUpd, GhostUpdate{Callee: m[1], K: k, Name: m[3], Value: v, Src: rest})
		} else if m := regexp.MustCompile(`^([A-Za-z_][A-Za-z0-9_]*)\s+([^=]+?)\s*:=\s*(.*)$`).FindStringSubmatch(rest); m != nil {
			v, err := ParseExpr(strings.TrimSpace(m[3]))
			if err != nil {
				return err
			}
			c.Ghosts = append(c.Ghosts, GhostVar{Name: m[1], Type: m[2], Init: v})
		} else {
			return fmt.Errorf("ghost clause: want 'ghost <name> <type> := <expr>' or 'ghost after <callee>[#k]: <name> := <expr>'")
		}
	case "ghost_exit":
		i := strings.Index(rest, ":=")
		if i < 0 {
			return fmt.Errorf("ghost_exit needs :=")
		}
		t, err := ParseExpr(strings.TrimSpace(rest[:i]))
		if err != nil {
			return err
		}
		v, err := ParseExpr(strings.TrimSpace(rest[i+2:]))
		if err != nil {
			return err
		}
		c.GhostExit = append(c.GhostExit, GhostAssign{Target: t, Value: v, Src: rest})
	case "arith":
		if rest != "wrapping" && rest != "checked" && rest != "mathematical" {
			return fmt.Errorf("arith pragma must be wrapping, checked or mathematical")
		}
		c.Arith = rest
	case "uses":
		for _, n := range strings.FieldsFunc(rest, func(r rune) bool { return r == ',' || r == ' ' }) {
			c.Uses = append(c.Uses, n)
		}
	case "quantifiers":
		// quantifiers solver: flat universal hypotheses are handed to the solver (E-matching) before
		// the generator-instantiated script is tried
		if rest != "solver" {
			return fmt.Errorf("quantifiers pragma: want 'quantifiers solver'")
		}
		c.Hybrid = true
	case "trusted":
		c.Trusted = true
	case "inline":
		c.Inline = true
	case "nosafety":
		c.NoSafety = true
	case "pure":
		c.Pure = true
		c.ModSet = true
	case "fresh":
		for _, n := range strings.Split(rest, ",") {
			c.Fresh = append(c.Fresh, strings.TrimSpace(n))
		}
	}
	return nil
}

func splitTopLevel(s string, sep rune) []string {
	var out []string
	d := 0
	start := 0
	for i, c := range s {
		switch c {
		case '(', '[':
			d++
		case ')', ']':
			d--
		}
		if c == sep && d == 0 {
			out = append(out, s[start:i])
			start = i + 1
		}
	}
	return append(out, s[start:])
}

// parseSpecFn parses "name(p T, q U) Ret := body" (pred: no Ret; uninterp: no body).
func parseSpecFn(kind, rest string) (*SpecFn, error) {
	i := strings.Index(rest, "(")
	if i < 0 {
		return nil, fmt.Errorf("spec function needs parameter list")
	}
	name := strings.TrimSpace(rest[:i])
	// find matching paren
	d := 0
	j := i
	for ; j < len(rest); j++ {
		if rest[j] == '(' {
			d++
		} else if rest[j] == ')' {
			d--
			if d == 0 {
				break
			}
		}
	}
	if j >= len(rest) {
		return nil, fmt.Errorf("unbalanced parameter list")
	}
	sf := &SpecFn{Name: name, IsPred: kind == "pred"}
	ps := strings.TrimSpace(rest[i+1 : j])
	if ps != "" {
		for _, p := range splitTopLevel(ps, ',') {
			p = strings.TrimSpace(p)
			k := strings.IndexAny(p, " \t")
			if k < 0 {
				sf.Params = append(sf.Params, QVar{Name: p})
				continue
			}
			sf.Params = append(sf.Params, QVar{Name: p[:k], Type: strings.TrimSpace(p[k:])})
		}
		for k := len(sf.Params) - 2; k >= 0; k-- {
			if sf.Params[k].Type == "" {
				sf.Params[k].Type = sf.Params[k+1].Type
			}
		}
	}
	tail := strings.TrimSpace(rest[j+1:])
	body := ""
	if k := strings.Index(tail, ":="); k >= 0 {
		sf.Ret = strings.TrimSpace(tail[:k])
		body = strings.TrimSpace(tail[k+2:])
	} else {
		sf.Ret = tail
	}
	if k := strings.Index(sf.Ret, " reads "); k >= 0 {
		for _, r := range splitTopLevel(sf.Ret[k+7:], ',') {
			sf.Reads = append(sf.Reads, strings.TrimSpace(r))
		}
		sf.Ret = strings.TrimSpace(sf.Ret[:k])
	}
	if strings.HasPrefix(sf.Ret, "rec ") {
		sf.Rec = true
		sf.Ret = strings.TrimSpace(sf.Ret[4:])
	}
	if sf.IsPred {
		sf.Ret = "bool"
	}
	if kind == "uninterp" {
		if body != "" {
			return nil, fmt.Errorf("uninterp function cannot have a body")
		}
		return sf, nil
	}
	if body == "" {
		return nil, fmt.Errorf("spec function %s needs a body (use uninterp otherwise)", name)
	}
	e, err := ParseExpr(body)
	if err != nil {
		return nil, err
	}
	sf.Body = e
	return sf, nil
}

// LoadContracts reads every verif_contracts.go under repo and every assumed spec.
func LoadContracts(repo, assumedDir string) (*ContractDB, error) {
	db := NewContractDB()
	var files []string
	err := filepath.Walk(repo, func(p string, info os.FileInfo, err error) error {
		if err != nil {
			return nil
		}
		if info.IsDir() && (info.Name() == ".git" || info.Name() == "node_modules") {
			return filepath.SkipDir
		}
		if !info.IsDir() && info.Name() == "verif_contracts.go" {
			files = append(files, p)
		}
		return nil
	})
	if err != nil {
		return nil, err
	}
	sort.Strings(files)
	for _, f := range files {
		rel, _ := filepath.Rel(repo, filepath.Dir(f))
		pkgPath := modulePath
		if rel != "." {
			pkgPath = modulePath + "/" + filepath.ToSlash(rel)
		}
		if err := db.LoadFile(f, false, pkgPath); err != nil {
			return nil, err
		}
	}
	specs, _ := filepath.Glob(filepath.Join(assumedDir, "*.spec"))
	sort.Strings(specs)
	for _, f := range specs {
		if err := db.LoadFile(f, true, ""); err != nil {
			return nil, err
		}
	}
	return db, nil
}
