package main

// Instruction semantics.

import (
	"fmt"
	"go/constant"
	"go/token"
	"go/types"
	"strings"

	"golang.org/x/tools/go/ssa"
)

func (x *Exec) val(f *Frame, v ssa.Value) Val {
	switch c := v.(type) {
	case *ssa.Const:
		return Val{T: x.constTerm(c)}
	case *ssa.Function:
		return Val{Fn: c, T: x.fnToken(c)}
	case *ssa.Global:
		return Val{LV: &LValue{kind: LVGlobal, glob: c, ty: c.Type().(*types.Pointer).Elem()}}
	case *ssa.Builtin:
		x.fail("builtin %s used as value", c.Name())
	}
	if r, ok := f.regs[v]; ok {
		return r
	}
	if fv, ok := v.(*ssa.FreeVar); ok {
		x.fail("free variable %s", fv.Name())
	}
	x.fail("value %s (%T) not defined on this path", v.Name(), v)
	return Val{}
}

func (x *Exec) term(f *Frame, v ssa.Value) Term {
	r := x.val(f, v)
	if r.LV != nil {
		return x.materialize(f, r.LV, v.Type())
	}
	if r.T.S == "" {
		x.fail("value %s has no term", v.Name())
	}
	return r.T
}

func (x *Exec) fnToken(fn *ssa.Function) Term {
	name := "fn_" + sanitize(fn.String())
	x.b.DeclFun(name, nil, SInt)
	x.b.Assert(mk(SBool, "(> %s 0)", Term{name, SInt}))
	return Term{name, SInt}
}

func (x *Exec) constTerm(c *ssa.Const) Term {
	t := c.Type()
	if c.Value == nil {
		return x.tm.Zero(t)
	}
	switch c.Value.Kind() {
	case constant.Bool:
		if constant.BoolVal(c.Value) {
			return tTrue
		}
		return tFalse
	case constant.Int:
		if isInteger(t) {
			return IntLitStr(c.Value.ExactString())
		}
		if b, ok := t.Underlying().(*types.Basic); ok && b.Info()&types.IsFloat != 0 {
			return x.floatConst(c.Value.ExactString())
		}
	case constant.String:
		return x.b.StrLit(constant.StringVal(c.Value))
	case constant.Float:
		return x.floatConst(c.Value.ExactString())
	}
	x.fail("constant %s", c)
	return Term{}
}

func (x *Exec) floatConst(s string) Term {
	name := "f64c_" + sanitize(s)
	x.b.DeclFun(name, nil, SF64)
	return Term{name, SF64}
}

// materialize turns an address into an opaque pointer value.
func (x *Exec) materialize(f *Frame, lv *LValue, ptrType types.Type) Term {
	switch lv.kind {
	case LVCell:
		if len(lv.path) == 0 {
			return lv.base
		}
	case LVField:
		// pointer to a field of a heap object. Nested struct fields that are themselves structs are
		// addressed as sub-objects.
		if len(lv.path) == 0 {
			hn := x.fieldHeapName(lv.named, lv.fld)
			fn := "addr_" + sanitize(hn)
			x.b.DeclFun(fn, []Sort{SInt}, SInt)
			p := App(SInt, fn, lv.base)
			et := lv.fld.Type()
			if n, s := namedStruct(et); s != nil && n != nil {
				_ = n
				x.fail("address of embedded struct field %s escapes", lv.fld.Name())
			}
			// snapshot: the cell behind the interior pointer holds the field's current value
			cn := x.cellHeapName(et)
			cs := ArraySort(SInt, x.tm.SortOf(et))
			ch := x.cur.Heap(x, cn, cs)
			x.assume(x.cur.reach, And(Eq(Select(ch, p), x.fieldSel(x.cur, lv.named, lv.fld, lv.base)), mk(SBool, "(> %s 0)", p), mk(SBool, "(< %s %s)", p, x.cur.Alloc(x))))
			x.note("interior pointers (&obj.field stored as a value) are read-only snapshots of the field at creation")
			return p
		}
	}
	x.fail("address of %s escapes into a value", lv.describe())
	return Term{}
}

func (lv *LValue) describe() string {
	switch lv.kind {
	case LVLocal:
		return "local " + lv.alloc.Comment
	case LVField:
		return "field " + lv.fld.Name()
	case LVCell:
		return "cell"
	case LVElem:
		return "slice element"
	case LVGlobal:
		return "global " + lv.glob.Name()
	}
	return "?"
}

// ---------------------------------------------------------------------------
// load / store through lvalues

func (x *Exec) nilCheck(f *Frame, base Term, pos token.Pos, what string) {
	if base.S == "0" {
		x.obligeGround(f, "nil", x.safetyTags(), x.cur.reach, tFalse, "nil dereference: "+what, pos)
		return
	}
	if x.noSafety() {
		x.assume(x.cur.reach, Not(Eq(base, IntLit(0))))
		return
	}
	x.obligeGround(f, "nil", x.safetyTags(), x.cur.reach, Not(Eq(base, IntLit(0))), "nil dereference: "+what, pos)
	x.assume(x.cur.reach, Not(Eq(base, IntLit(0))))
}

func (x *Exec) noSafety() bool { return x.con != nil && x.con.NoSafety }

func (x *Exec) safetyTags() []string {
	if x.con != nil {
		return x.con.Tags
	}
	return nil
}

func (x *Exec) rootLoad(f *Frame, lv *LValue, pos token.Pos) Term {
	switch lv.kind {
	case LVLocal:
		v, ok := x.cur.locals[lv.alloc]
		if !ok {
			x.fail("local %s read before definition on this path", lv.alloc.Comment)
		}
		return v
	case LVField:
		x.nilCheck(f, lv.base, pos, "."+lv.fld.Name())
		x.cands.addRef(lv.base)
		v := x.fieldSel(x.cur, lv.named, lv.fld, lv.base)
		return v
	case LVCell:
		x.nilCheck(f, lv.base, pos, "*ptr")
		cs := ArraySort(SInt, x.tm.SortOf(lv.ty))
		return Select(x.cur.Heap(x, x.cellHeapName(lv.ty), cs), lv.base)
	case LVElem:
		return Select(SlElems(lv.base), lv.idx)
	case LVGlobal:
		x.note("package-level variable " + lv.glob.Name() + " read as an unconstrained value")
		name := "glob_" + sanitize(lv.glob.String())
		x.b.DeclFun(name, nil, x.tm.SortOf(lv.ty))
		// sentinel errors of the standard library (io.EOF, ...) are non-nil
		if lv.glob.Pkg != nil && x.tm.SortOf(lv.ty) == SIfc && types.TypeString(lv.ty, nil) == "error" && !strings.Contains(lv.glob.Pkg.Pkg.Path(), ".") {
			x.b.Assert(Not(Eq(Term{name, SIfc}, nilIfc)))
			x.note("error variables of standard-library packages (sentinels such as io.EOF) are non-nil")
		}
		return Term{name, x.tm.SortOf(lv.ty)}
	}
	panic("rootLoad")
}

func (x *Exec) rootStore(f *Frame, lv *LValue, v Term, pos token.Pos) {
	switch lv.kind {
	case LVLocal:
		x.cur.locals[lv.alloc] = v
	case LVField:
		x.nilCheck(f, lv.base, pos, "."+lv.fld.Name())
		hn := x.fieldHeapName(lv.named, lv.fld)
		h := x.cur.Heap(x, hn, ArraySort(SInt, x.tm.SortOf(lv.fld.Type())))
		x.cur.heaps[hn] = x.b.Def(hn, StoreT(h, lv.base, v))
	case LVCell:
		x.nilCheck(f, lv.base, pos, "*ptr")
		hn := x.cellHeapName(lv.ty)
		h := x.cur.Heap(x, hn, ArraySort(SInt, x.tm.SortOf(lv.ty)))
		x.cur.heaps[hn] = x.b.Def(hn, StoreT(h, lv.base, v))
	case LVElem:
		x.fail("write to an element of a shared slice (value semantics restriction)")
	case LVGlobal:
		x.fail("write to package-level variable %s", lv.glob.Name())
	}
}

func (x *Exec) pathGet(v Term, path []pathStep) Term {
	for _, s := range path {
		if s.field >= 0 {
			v = x.tm.StructField(v, s.ty, s.field)
		} else {
			v = Select(v, s.idx)
		}
	}
	return v
}

func (x *Exec) pathSet(v Term, path []pathStep, nv Term) Term {
	if len(path) == 0 {
		return nv
	}
	s := path[0]
	if s.field >= 0 {
		inner := x.tm.StructField(v, s.ty, s.field)
		return x.tm.StructWith(v, s.ty, s.field, x.pathSet(inner, path[1:], nv))
	}
	inner := Select(v, s.idx)
	return StoreT(v, s.idx, x.pathSet(inner, path[1:], nv))
}

func (x *Exec) load(f *Frame, lv *LValue, pos token.Pos) Term {
	return x.pathGet(x.rootLoad(f, lv, pos), lv.path)
}

func (x *Exec) store(f *Frame, lv *LValue, v Term, pos token.Pos) {
	if len(lv.path) == 0 {
		x.rootStore(f, lv, v, pos)
		return
	}
	root := x.rootLoadForUpdate(f, lv, pos)
	x.rootStore(f, lv, x.b.Def("upd", x.pathSet(root, lv.path, v)), pos)
}

func (x *Exec) rootLoadForUpdate(f *Frame, lv *LValue, pos token.Pos) Term {
	if lv.kind == LVLocal {
		if v, ok := x.cur.locals[lv.alloc]; ok {
			return v
		}
		// first partial write to a fresh local: start from the zero value
		z := x.tm.Zero(lv.ty)
		x.cur.locals[lv.alloc] = z
		return z
	}
	return x.rootLoad(f, lv, pos)
}

// wholeStructLoad reads all fields of the object at ref as a struct value.
func (x *Exec) wholeStructLoad(f *Frame, ref Term, n *types.Named, s *types.Struct, pos token.Pos) Term {
	x.nilCheck(f, ref, pos, "*"+n.Obj().Name())
	name := string(x.tm.SortOf(n))
	if s.NumFields() == 0 {
		return Term{"mk_" + name, Sort(name)}
	}
	var args []string
	for i := 0; i < s.NumFields(); i++ {
		args = append(args, x.fieldSel(x.cur, n, s.Field(i), ref).S)
	}
	return Term{fmt.Sprintf("(mk_%s %s)", name, strings.Join(args, " ")), Sort(name)}
}

func (x *Exec) wholeStructStore(f *Frame, ref Term, n *types.Named, s *types.Struct, v Term, pos token.Pos) {
	x.nilCheck(f, ref, pos, "*"+n.Obj().Name())
	for i := 0; i < s.NumFields(); i++ {
		fv := s.Field(i)
		hn := x.fieldHeapName(n, fv)
		h := x.cur.Heap(x, hn, ArraySort(SInt, x.tm.SortOf(fv.Type())))
		x.cur.heaps[hn] = x.b.Def(hn, StoreT(h, ref, x.tm.StructField(v, n, i)))
	}
}

// addrOf interprets a pointer-typed SSA value as an lvalue.
func (x *Exec) addrOf(f *Frame, v ssa.Value) *LValue {
	r := x.val(f, v)
	if r.LV != nil {
		return r.LV
	}
	pt, ok := v.Type().Underlying().(*types.Pointer)
	if !ok {
		x.fail("dereference of non-pointer %s", v.Type())
	}
	et := pt.Elem()
	if n, s := namedStruct(et); s != nil && n != nil {
		// whole-object pointer: handled by callers (FieldAddr / whole struct load)
		return &LValue{kind: LVCell, base: r.T, ty: et, named: n}
	}
	return &LValue{kind: LVCell, base: r.T, ty: et}
}

// ---------------------------------------------------------------------------

func (x *Exec) execBlock(f *Frame, b *ssa.BasicBlock) {
	for _, ins := range b.Instrs {
		x.execInstr(f, b, ins)
		if x.cur == nil {
			return
		}
	}
}

func (x *Exec) setReg(f *Frame, v ssa.Value, t Term) {
	t = x.b.Def("r_"+v.Name(), t)
	f.regs[v] = Val{T: t}
}

func (x *Exec) freshRef(hint string) Term {
	a := x.cur.Alloc(x)
	r := x.b.Def(hint, a)
	x.cur.heaps["$alloc"] = x.b.Def("alloc", mk(SInt, "(+ %s 1)", a))
	return r
}

func (x *Exec) execInstr(f *Frame, b *ssa.BasicBlock, ins ssa.Instruction) {
	switch i := ins.(type) {
	case *ssa.DebugRef:
	case *ssa.Alloc:
		et := i.Type().(*types.Pointer).Elem()
		if !i.Heap {
			f.regs[i] = Val{LV: &LValue{kind: LVLocal, alloc: i, ty: et}}
			// Go zero-initialises; NaiveForm stores parameters explicitly afterwards
			x.cur.locals[i] = x.tm.Zero(et)
			return
		}
		ref := x.freshRef("new_" + i.Name())
		if n, s := directStruct(et); s != nil && n != nil {
			for k := 0; k < s.NumFields(); k++ {
				fv := s.Field(k)
				hn := x.fieldHeapName(n, fv)
				h := x.cur.Heap(x, hn, ArraySort(SInt, x.tm.SortOf(fv.Type())))
				x.cur.heaps[hn] = x.b.Def(hn, StoreT(h, ref, x.tm.Zero(fv.Type())))
			}
			f.regs[i] = Val{T: ref}
			return
		}
		hn := x.cellHeapName(et)
		h := x.cur.Heap(x, hn, ArraySort(SInt, x.tm.SortOf(et)))
		x.cur.heaps[hn] = x.b.Def(hn, StoreT(h, ref, x.tm.Zero(et)))
		f.regs[i] = Val{T: ref, LV: &LValue{kind: LVCell, base: ref, ty: et}}
	case *ssa.Store:
		x.execStore(f, i)
	case *ssa.UnOp:
		x.execUnOp(f, i)
	case *ssa.BinOp:
		xv := x.term(f, i.X)
		yv := x.term(f, i.Y)
		// the hidden index of a range loop is -1 .. len (at most 2^48): its increment cannot wrap
		if u, ok := i.X.(*ssa.UnOp); ok && i.Op == token.ADD && u.Op == token.MUL {
			if a, ok := u.X.(*ssa.Alloc); ok && a.Comment == "rangeindex" {
				if c, ok := i.Y.(*ssa.Const); ok && c.Value != nil && c.Value.ExactString() == "1" {
					x.assume(x.cur.reach, And(mk(SBool, "(>= %s (- 1))", xv), mk(SBool, "(<= %s 281474976710656)", xv)))
					x.setReg(f, i, mk(SInt, "(+ %s 1)", xv))
					break
				}
			}
		}
		x.setReg(f, i, x.binop(f, i.Op, xv, yv, i.X.Type(), i.Y.Type(), i.Type(), i.Pos()))
	case *ssa.FieldAddr:
		x.execFieldAddr(f, i)
	case *ssa.Field:
		sv := x.term(f, i.X)
		t := x.tm.StructField(sv, i.X.Type(), i.Field)
		x.setReg(f, i, t)
	case *ssa.IndexAddr:
		x.execIndexAddr(f, i)
	case *ssa.Index:
		xv := x.term(f, i.X)
		idx := x.term(f, i.Index)
		switch u := i.X.Type().Underlying().(type) {
		case *types.Array:
			x.boundsCheck(f, idx, IntLit(u.Len()), i.Pos())
			x.setReg(f, i, Select(xv, idx))
		case *types.Basic: // string
			x.boundsCheck(f, idx, x.strLen(nil, xv), i.Pos())
			t := mk(SInt, "(str_byte %s %s)", xv, idx)
			x.setReg(f, i, t)
			x.assume(x.cur.reach, And(mk(SBool, "(<= 0 %s)", f.regs[i].T), mk(SBool, "(<= %s 255)", f.regs[i].T)))
		default:
			x.fail("Index on %s", i.X.Type())
		}
	case *ssa.Slice:
		x.execSlice(f, i)
	case *ssa.Convert:
		x.execConvert(f, i)
	case *ssa.ChangeType:
		f.regs[i] = x.val(f, i.X)
	case *ssa.ChangeInterface:
		f.regs[i] = x.val(f, i.X)
	case *ssa.MakeInterface:
		x.execMakeInterface(f, i)
	case *ssa.TypeAssert:
		x.execTypeAssert(f, i)
	case *ssa.Extract:
		tv := x.val(f, i.Tuple)
		if tv.Tup == nil {
			x.fail("extract from non-tuple")
		}
		f.regs[i] = tv.Tup[i.Index]
	case *ssa.Phi:
		x.execPhi(f, b, i)
	case *ssa.Call:
		x.execCall(f, i)
	case *ssa.MakeMap:
		mt := i.Type().Underlying().(*types.Map)
		ref := x.freshRef("newmap")
		ks, vs := x.tm.SortOf(mt.Key()), x.tm.SortOf(mt.Elem())
		empty := MkMapV(x.tm.ConstArray(ks, tFalse), x.tm.ConstArray(ks, x.tm.Zero(mt.Elem())), IntLit(0))
		_ = vs
		x.mapSet(x.cur, mt, ref, empty)
		if x.usesSz && ks == SStr && vs == SStr {
			x.assume(x.cur.reach, Eq(x.szTerm(empty), IntLit(0)))
		}
		f.regs[i] = Val{T: ref}
	case *ssa.MakeSlice:
		x.execMakeSlice(f, i)
	case *ssa.MakeClosure:
		var binds []Val
		for _, bv := range i.Bindings {
			binds = append(binds, x.val(f, bv))
		}
		fn := i.Fn.(*ssa.Function)
		// every executed MakeClosure gets its own token: a function variable that was assigned on
		// several paths is dispatched over the closures registered here (execDispatch)
		tok := x.b.Fresh("clo_"+sanitize(fn.Name()), SInt)
		x.b.Assert(mk(SBool, "(> %s 0)", tok))
		for _, o := range x.closureOrder {
			x.b.Assert(Not(Eq(tok, Term{o, SInt})))
		}
		v := Val{T: tok, Clo: i, Fn: fn, Bind: binds}
		if x.closures == nil {
			x.closures = map[string]Val{}
		}
		x.closures[tok.S] = v
		x.closureOrder = append(x.closureOrder, tok.S)
		f.regs[i] = v
	case *ssa.Lookup:
		x.execLookup(f, i)
	case *ssa.MapUpdate:
		x.execMapUpdate(f, i)
	case *ssa.Range, *ssa.Next:
		x.execRange(f, ins)
	case *ssa.RunDefers:
		if len(f.deferred) > 0 {
			x.runDeferred(f)
		}
	case *ssa.Defer:
		x.execDefer(f, i)
	case *ssa.If:
		c := x.term(f, i.Cond)
		f.edge[[2]int{b.Index, b.Succs[0].Index}] = c
		f.edge[[2]int{b.Index, b.Succs[1].Index}] = Not(c)
		x.backEdges(f, b)
	case *ssa.Jump:
		f.edge[[2]int{b.Index, b.Succs[0].Index}] = tTrue
		x.backEdges(f, b)
	case *ssa.Return:
		var rs []Term
		for _, r := range i.Results {
			rs = append(rs, x.term(f, r))
		}
		f.exits = append(f.exits, exitState{st: x.cur.clone(), results: rs, pos: i.Pos()})
	case *ssa.Panic:
		x.execPanic(f, i.Pos(), "panic")
	case *ssa.Go:
		// the spawned call is not executed: goroutines are not modelled (standing assumption); its
		// effects on the heap, if any, are invisible to the proof
		x.note("go statement in " + x.fnKeyShort() + ": the spawned call is not executed (goroutines are not modelled)")
	case *ssa.Send, *ssa.Select:
		x.fail("channel operation")
	default:
		x.fail("instruction %T", ins)
	}
}

func (x *Exec) execPanic(f *Frame, pos token.Pos, what string) {
	f.panics = append(f.panics, panicState{st: x.cur.clone(), pos: pos, what: what})
	x.cur.reach = tFalse
}

// backEdges emits inv-pres obligations for successors that are loop headers reached by a back edge.
func (x *Exec) backEdges(f *Frame, b *ssa.BasicBlock) {
	for _, s := range b.Succs {
		if !s.Dominates(b) {
			continue
		}
		li := f.loops[s]
		if li == nil {
			continue
		}
		if li.spec == nil {
			li.spec = &LoopSpec{}
		}
		c := f.edge[[2]int{b.Index, s.Index}]
		guard := x.b.Def("backedge", And(x.cur.reach, c))
		st := x.cur.clone()
		save := x.cur
		x.cur = st
		env := x.newEnv(x.loopVars(f, li), st, x.entry)
		x.cur = save
		for j, inv := range li.spec.Invariants {
			x.obligeSpec(f, "inv-pres", inv, guard, env, fmt.Sprintf("loop%d/inv-pres#%d@b%d", li.ordinal, j, b.Index))
		}
		for _, fr := range li.frames {
			cur, ok := st.heaps[fr.heap]
			if !ok {
				continue
			}
			cl := Clause{Tags: x.safetyTags(), Expr: loopFrameExpr, Src: "loop leaves pre-existing objects of " + fr.heap + " unchanged (loop modifies clause)"}
			x.obligeSpec(f, "loop-frame", cl, guard, x.loopFrameEnv(fr, cur), fmt.Sprintf("loop%d/frame:%s@b%d", li.ordinal, fr.heap, b.Index))
		}
	}
}

func (x *Exec) execStore(f *Frame, i *ssa.Store) {
	x.execStore1(f, i)
	// ghost updates anchored at assignments to a named local
	if a, ok := i.Addr.(*ssa.Alloc); ok && a.Comment != "" && !a.Heap && f.top && x.con != nil && len(x.con.GhostUpd) > 0 {
		x.runGhostUpdates(f, "set:"+a.Comment, -1, false)
	}
}

func (x *Exec) execStore1(f *Frame, i *ssa.Store) {
	// storing a struct value through a pointer to a heap object
	av := x.val(f, i.Addr)
	vv := x.val(f, i.Val)
	if av.LV == nil {
		pt := i.Addr.Type().Underlying().(*types.Pointer)
		if n, s := directStruct(pt.Elem()); s != nil && n != nil {
			x.wholeStructStore(f, av.T, n, s, x.term(f, i.Val), i.Pos())
			return
		}
	}
	lv := x.addrOf(f, i.Addr)
	if lv.kind == LVLocal && len(lv.path) == 0 && (vv.Fn != nil || vv.Clo != nil || vv.LV != nil || vv.Tup != nil) {
		// keep rich values (closures, addresses) in a side table keyed by the alloc
		if vv.LV != nil {
			// pointer variable holding an address: materialise
			t := x.materialize(f, vv.LV, i.Val.Type())
			x.cur.locals[lv.alloc] = t
			return
		}
		x.richLocals(f)[lv.alloc] = vv
		x.cur.locals[lv.alloc] = vv.T
		return
	}
	t := x.term(f, i.Val)
	x.store(f, lv, t, i.Pos())
}

var richTable = map[*Frame]map[*ssa.Alloc]Val{}

func (x *Exec) richLocals(f *Frame) map[*ssa.Alloc]Val {
	m := richTable[f]
	if m == nil {
		m = map[*ssa.Alloc]Val{}
		richTable[f] = m
	}
	return m
}

func (x *Exec) execUnOp(f *Frame, i *ssa.UnOp) {
	switch i.Op {
	case token.MUL: // load
		av := x.val(f, i.X)
		if av.LV == nil {
			pt := i.X.Type().Underlying().(*types.Pointer)
			if n, s := directStruct(pt.Elem()); s != nil && n != nil {
				x.setReg(f, i, x.wholeStructLoad(f, av.T, n, s, i.Pos()))
				return
			}
		}
		lv := x.addrOf(f, i.X)
		if lv.kind == LVLocal && len(lv.path) == 0 {
			if rv, ok := x.richLocals(f)[lv.alloc]; ok && x.cur.locals[lv.alloc].S == rv.T.S {
				f.regs[i] = rv
				return
			}
		}
		t := x.load(f, lv, i.Pos())
		t = x.b.Def("r_"+i.Name(), t)
		r := Val{T: t}
		if lv.kind == LVLocal && len(lv.path) == 0 {
			r.prov = lv.alloc
		}
		f.regs[i] = r
		if lv.kind != LVLocal {
			x.assume(x.cur.reach, x.typeFact(t, i.Type(), x.cur.Alloc(x)))
		}
	case token.NOT:
		x.setReg(f, i, Not(x.term(f, i.X)))
	case token.SUB:
		v := x.term(f, i.X)
		if isInteger(i.Type()) {
			x.setReg(f, i, wrapTo(mk(SInt, "(- %s)", v), i.Type()))
		} else {
			x.b.DeclFun("f64_neg", []Sort{SF64}, SF64)
			x.setReg(f, i, App(SF64, "f64_neg", v))
		}
	case token.XOR:
		v := x.term(f, i.X)
		if isUnsigned(i.Type()) {
			_, hi, _ := intRange(i.Type())
			x.setReg(f, i, mk(SInt, "(- %s %s)", bigTerm(hi), v))
		} else {
			x.setReg(f, i, mk(SInt, "(- (- %s) 1)", v))
		}
	case token.ARROW:
		x.fail("channel receive")
	default:
		x.fail("unary %s", i.Op)
	}
}

func (x *Exec) execFieldAddr(f *Frame, i *ssa.FieldAddr) {
	bv := x.val(f, i.X)
	pt := i.X.Type().Underlying().(*types.Pointer)
	n, s := namedStruct(pt.Elem())
	if s == nil {
		x.fail("FieldAddr on non-struct")
	}
	fv := s.Field(i.Field)
	if bv.LV != nil && !(bv.LV.kind == LVCell && bv.LV.named != nil && len(bv.LV.path) == 0) {
		// field of a struct held in a local / nested struct field / array element
		nl := *bv.LV
		nl.path = append(append([]pathStep{}, bv.LV.path...), pathStep{field: i.Field, ty: pt.Elem()})
		f.regs[i] = Val{LV: &nl}
		return
	}
	base := bv.T
	if bv.LV != nil {
		base = bv.LV.base
	}
	if n == nil {
		x.fail("pointer to unnamed struct type")
	}
	f.regs[i] = Val{LV: &LValue{kind: LVField, base: base, named: n, fld: fv, ty: fv.Type()}}
}

func (x *Exec) boundsCheck(f *Frame, idx, n Term, pos token.Pos) {
	g := And(mk(SBool, "(<= 0 %s)", idx), mk(SBool, "(< %s %s)", idx, n))
	if !x.noSafety() {
		x.obligeGround(f, "bounds", x.safetyTags(), x.cur.reach, g, "index out of range", pos)
	}
	x.assume(x.cur.reach, g)
}

func (x *Exec) execIndexAddr(f *Frame, i *ssa.IndexAddr) {
	idx := x.term(f, i.Index)
	if _, isSl := i.X.Type().Underlying().(*types.Slice); isSl {
		x.cands.addIdxFor(idx, x.val(f, i.X).T)
	} else {
		x.cands.addIdx(idx)
	}
	switch u := i.X.Type().Underlying().(type) {
	case *types.Pointer: // pointer to array
		at := u.Elem().Underlying().(*types.Array)
		lv := x.addrOf(f, i.X)
		x.boundsCheck(f, idx, IntLit(at.Len()), i.Pos())
		nl := *lv
		nl.path = append(append([]pathStep{}, lv.path...), pathStep{field: -1, idx: idx, ty: u.Elem()})
		f.regs[i] = Val{LV: &nl}
	case *types.Slice:
		sv := x.val(f, i.X)
		x.boundsCheck(f, idx, SlLen(sv.T), i.Pos())
		lv := &LValue{kind: LVElem, base: sv.T, idx: idx, ty: u.Elem()}
		if sv.prov != nil {
			lv.alloc = sv.prov
		}
		f.regs[i] = Val{LV: lv}
	default:
		x.fail("IndexAddr on %s", i.X.Type())
	}
}

func (x *Exec) execSlice(f *Frame, i *ssa.Slice) {
	switch u := i.X.Type().Underlying().(type) {
	case *types.Pointer: // slicing an array
		at := u.Elem().Underlying().(*types.Array)
		lv := x.addrOf(f, i.X)
		arr := x.load(f, lv, i.Pos())
		full := MkSlice(arr, IntLit(at.Len()))
		if i.Low != nil || i.High != nil {
			lo := IntLit(0)
			if i.Low != nil {
				lo = x.term(f, i.Low)
			}
			hi := IntLit(at.Len())
			if i.High != nil {
				hi = x.term(f, i.High)
			}
			g := And(mk(SBool, "(<= 0 %s)", lo), mk(SBool, "(<= %s %s)", lo, hi), mk(SBool, "(<= %s %d)", hi, at.Len()))
			if !x.noSafety() {
				x.obligeGround(f, "bounds", x.safetyTags(), x.cur.reach, g, "slice bounds out of range", i.Pos())
			}
			x.assume(x.cur.reach, g)
			if isByteSlice(i.Type()) {
				t := x.b.Fresh("arrbytes", SStr)
				x.assume(x.cur.reach, mk(SBool, "(= (str_len %s) (- %s %s))", t, hi, lo))
				x.setReg(f, i, t)
				return
			}
			x.setReg(f, i, x.subSlice(x.b, full, lo, hi))
			return
		}
		if isByteSlice(i.Type()) {
			t := x.b.Fresh("arrbytes", SStr)
			x.assume(x.cur.reach, mk(SBool, "(= (str_len %s) %d)", t, at.Len()))
			x.setReg(f, i, t)
			return
		}
		x.setReg(f, i, full)
	case *types.Slice:
		sv := x.term(f, i.X)
		if isByteSlice(i.X.Type()) {
			x.execStrSlice(f, i, sv)
			return
		}
		lo := IntLit(0)
		if i.Low != nil {
			lo = x.term(f, i.Low)
		}
		hi := SlLen(sv)
		if i.High != nil {
			hi = x.term(f, i.High)
		}
		g := And(mk(SBool, "(<= 0 %s)", lo), mk(SBool, "(<= %s %s)", lo, hi), mk(SBool, "(<= %s %s)", hi, SlLen(sv)))
		if !x.noSafety() {
			x.obligeGround(f, "bounds", x.safetyTags(), x.cur.reach, g, "slice bounds out of range (checked against len, stricter than cap)", i.Pos())
		}
		x.assume(x.cur.reach, g)
		x.setReg(f, i, x.subSlice(x.b, sv, lo, hi))
	case *types.Basic:
		sv := x.term(f, i.X)
		x.execStrSlice(f, i, sv)
	default:
		x.fail("Slice on %s", i.X.Type())
	}
}

func (x *Exec) execStrSlice(f *Frame, i *ssa.Slice, sv Term) {
	n := x.strLen(nil, sv)
	lo := IntLit(0)
	if i.Low != nil {
		lo = x.term(f, i.Low)
	}
	hi := n
	if i.High != nil {
		hi = x.term(f, i.High)
	}
	g := And(mk(SBool, "(<= 0 %s)", lo), mk(SBool, "(<= %s %s)", lo, hi), mk(SBool, "(<= %s %s)", hi, n))
	if !x.noSafety() {
		x.obligeGround(f, "bounds", x.safetyTags(), x.cur.reach, g, "slice bounds out of range", i.Pos())
	}
	x.assume(x.cur.reach, g)
	r := sv
	if i.High != nil {
		r = mk(SStr, "(str_take %s %s)", r, hi)
		x.assume(x.cur.reach, And(mk(SBool, "(= (str_len %s) %s)", r, hi), mk(SBool, "(str_prefix %s %s)", sv, r)))
	}
	if i.Low != nil {
		r2 := mk(SStr, "(str_drop %s %s)", r, lo)
		x.assume(x.cur.reach, mk(SBool, "(= (str_len %s) (- (str_len %s) %s))", r2, r, lo))
		r = r2
	}
	x.setReg(f, i, r)
}

func (x *Exec) execConvert(f *Frame, i *ssa.Convert) {
	v := x.term(f, i.X)
	from, to := i.X.Type(), i.Type()
	switch {
	case isInteger(from) && isInteger(to):
		flo, fhi, _ := intRange(from)
		tlo, thi, _ := intRange(to)
		if flo.Cmp(tlo) >= 0 && fhi.Cmp(thi) <= 0 {
			x.setReg(f, i, v)
		} else {
			x.setReg(f, i, wrapTo(v, to))
		}
	case x.tm.SortOf(from) == SStr && x.tm.SortOf(to) == SStr:
		// string <-> []byte: same content; nil bytes become the empty string and vice versa
		if isByteSlice(from) && !isByteSlice(to) {
			x.setReg(f, i, Ite(Eq(v, Term{"bytes_nil", SStr}), Term{"str_empty", SStr}, v))
		} else {
			x.setReg(f, i, v)
		}
	case isInteger(from) && x.tm.SortOf(to) == SF64:
		x.b.DeclFun("f64_of_int", []Sort{SInt}, SF64)
		x.setReg(f, i, App(SF64, "f64_of_int", v))
	case x.tm.SortOf(from) == SF64 && isInteger(to):
		x.b.DeclFun("int_of_f64", []Sort{SF64}, SInt)
		t := x.b.Def("cv", wrapTo(App(SInt, "int_of_f64", v), to))
		x.setReg(f, i, t)
	case x.tm.SortOf(from) == SF64 && x.tm.SortOf(to) == SF64:
		x.setReg(f, i, v)
	case isInteger(from) && x.tm.SortOf(to) == SStr:
		x.b.DeclFun("str_of_rune", []Sort{SInt}, SStr)
		x.setReg(f, i, App(SStr, "str_of_rune", v))
	default:
		if x.tm.SortOf(from) == x.tm.SortOf(to) {
			x.setReg(f, i, v)
			return
		}
		x.fail("conversion %s -> %s", from, to)
	}
}

func (x *Exec) typeTag(t types.Type) Term {
	k := types.TypeString(t, nil)
	n, ok := x.typeTags[k]
	if !ok {
		n = len(x.typeTags) + 1
		x.typeTags[k] = n
		if x.tagTypes == nil {
			x.tagTypes = map[int]types.Type{}
		}
		x.tagTypes[n] = t
		// interface-to-interface assertions executed before this dynamic type became known: the same
		// fact as in execTypeAssert, for the new type
		for _, a := range x.ifaceAsserts {
			has := Eq(IfcTag(a.v), IntLit(int64(n)))
			if types.Implements(t, a.it) {
				x.assume(a.reach, Implies(And(has, Not(Eq(a.v, nilIfc))), a.ok))
			} else {
				x.assume(a.reach, Implies(has, Not(a.ok)))
			}
		}
	}
	return IntLit(int64(n))
}

// ifaceAssert records an executed interface-to-interface type assertion (value, result, interface).
type ifaceAssert struct {
	v, ok, reach Term
	it           *types.Interface
}

func (x *Exec) execMakeInterface(f *Frame, i *ssa.MakeInterface) {
	xt := i.X.Type()
	tag := x.typeTag(xt)
	v := x.val(f, i.X)
	switch xt.Underlying().(type) {
	case *types.Pointer:
		f.regs[i] = Val{T: MkIfc(tag, x.term(f, i.X))}
		_ = v
	default:
		// box the value
		ref := x.freshRef("box")
		hn := "Box_" + typeKey(xt)
		s := x.tm.SortOf(xt)
		h := x.cur.Heap(x, hn, ArraySort(SInt, s))
		x.cur.heaps[hn] = x.b.Def(hn, StoreT(h, ref, x.term(f, i.X)))
		f.regs[i] = Val{T: MkIfc(tag, ref)}
	}
}

func (x *Exec) execTypeAssert(f *Frame, i *ssa.TypeAssert) {
	v := x.term(f, i.X)
	if _, isIfc := i.AssertedType.Underlying().(*types.Interface); isIfc {
		// interface-to-interface assertion: succeeds for non-nil values implementing it (unknown)
		ok := x.b.Fresh("ta_ok", SBool)
		x.assume(x.cur.reach, Implies(ok, Not(Eq(v, nilIfc))))
		// dynamic types already known to the proof: the assertion succeeds exactly when the
		// (non-nil) value's type implements the interface
		if it, isI := i.AssertedType.Underlying().(*types.Interface); isI {
			for n, ty := range x.tagTypes {
				has := Eq(IfcTag(v), IntLit(int64(n)))
				if types.Implements(ty, it) {
					x.assume(x.cur.reach, Implies(And(has, Not(Eq(v, nilIfc))), ok))
				} else {
					x.assume(x.cur.reach, Implies(has, Not(ok)))
				}
			}
			x.ifaceAsserts = append(x.ifaceAsserts, ifaceAssert{v: v, ok: ok, reach: x.cur.reach, it: it})
		}
		if i.CommaOk {
			f.regs[i] = Val{Tup: []Val{{T: Ite(ok, v, nilIfc)}, {T: ok}}}
			return
		}
		x.obligeGround(f, "typeassert", x.safetyTags(), x.cur.reach, ok, "interface conversion may fail", i.Pos())
		f.regs[i] = Val{T: v}
		return
	}
	tag := x.typeTag(i.AssertedType)
	ok := Eq(IfcTag(v), tag)
	var payload Term
	switch i.AssertedType.Underlying().(type) {
	case *types.Pointer:
		payload = IfcRef(v)
	default:
		hn := "Box_" + typeKey(i.AssertedType)
		s := x.tm.SortOf(i.AssertedType)
		payload = Select(x.cur.Heap(x, hn, ArraySort(SInt, s)), IfcRef(v))
	}
	if i.CommaOk {
		f.regs[i] = Val{Tup: []Val{{T: x.b.Def("ta", Ite(ok, payload, x.tm.Zero(i.AssertedType)))}, {T: x.b.Def("ta_ok", ok)}}}
		return
	}
	x.obligeGround(f, "typeassert", x.safetyTags(), x.cur.reach, ok, "type assertion may fail", i.Pos())
	x.assume(x.cur.reach, ok)
	x.setReg(f, i, payload)
}

func (x *Exec) execPhi(f *Frame, b *ssa.BasicBlock, i *ssa.Phi) {
	// value = ite over the incoming edges that are live
	var t Term
	first := true
	for k := len(b.Preds) - 1; k >= 0; k-- {
		p := b.Preds[k]
		ps, ok := f.out[p]
		if !ok {
			continue
		}
		c, ok := f.edge[[2]int{p.Index, b.Index}]
		if !ok {
			continue
		}
		// the value must be evaluable: constants or registers already defined
		var v Term
		func() {
			defer func() {
				if r := recover(); r != nil {
					if _, isU := r.(unsupportedErr); isU {
						v = Term{}
						return
					}
					panic(r)
				}
			}()
			v = x.term(f, i.Edges[k])
		}()
		if v.S == "" {
			continue
		}
		if first {
			t = v
			first = false
		} else {
			t = Ite(And(ps.reach, c), v, t)
		}
	}
	if first {
		x.fail("phi with no live edge")
	}
	x.setReg(f, i, t)
}

func (x *Exec) execMakeSlice(f *Frame, i *ssa.MakeSlice) {
	n := x.term(f, i.Len)
	if isByteSlice(i.Type()) {
		// fresh zero-filled bytes of length n: an unknown string of that length
		t := x.b.Fresh("mkbytes", SStr)
		x.assume(x.cur.reach, And(mk(SBool, "(= (str_len %s) %s)", t, n), Not(Eq(t, Term{"bytes_nil", SStr}))))
		f.regs[i] = Val{T: t}
		return
	}
	st := i.Type().Underlying().(*types.Slice)
	if !x.noSafety() {
		x.obligeGround(f, "bounds", x.safetyTags(), x.cur.reach, mk(SBool, "(>= %s 0)", n), "makeslice: len out of range", i.Pos())
	}
	x.assume(x.cur.reach, mk(SBool, "(>= %s 0)", n))
	x.setReg(f, i, MkSlice(x.tm.ConstArray(SInt, x.tm.Zero(st.Elem())), n))
}

func (x *Exec) execLookup(f *Frame, i *ssa.Lookup) {
	if _, isStr := i.X.Type().Underlying().(*types.Basic); isStr {
		xv := x.term(f, i.X)
		idx := x.term(f, i.Index)
		x.boundsCheck(f, idx, x.strLen(nil, xv), i.Pos())
		t := mk(SInt, "(str_byte %s %s)", xv, idx)
		x.setReg(f, i, t)
		x.assume(x.cur.reach, And(mk(SBool, "(<= 0 %s)", f.regs[i].T), mk(SBool, "(<= %s 255)", f.regs[i].T)))
		return
	}
	mt := i.X.Type().Underlying().(*types.Map)
	m := x.term(f, i.X)
	k := x.term(f, i.Index)
	x.cands.addKey(k)
	mv := x.mapSel(x.cur, mt, m)
	has := Select(MapHas(mv), k)
	// lookups in a nil map yield the zero value
	has = And(Not(Eq(m, IntLit(0))), has)
	val := Ite(has, Select(MapVal(mv), k), x.tm.Zero(mt.Elem()))
	val = x.b.Def("lk", val)
	x.assume(x.cur.reach, x.typeFact(val, mt.Elem(), x.cur.Alloc(x)))
	x.szMember(mv, k)
	if i.CommaOk {
		f.regs[i] = Val{Tup: []Val{{T: val}, {T: x.b.Def("lk_ok", has)}}}
		return
	}
	f.regs[i] = Val{T: val}
}

func (x *Exec) execMapUpdate(f *Frame, i *ssa.MapUpdate) {
	mt := i.Map.Type().Underlying().(*types.Map)
	m := x.term(f, i.Map)
	k := x.term(f, i.Key)
	v := x.term(f, i.Value)
	x.cands.addKey(k)
	if !x.noSafety() {
		x.obligeGround(f, "mapnilwrite", x.safetyTags(), x.cur.reach, Not(Eq(m, IntLit(0))), "assignment to entry in nil map", i.Pos())
	}
	x.assume(x.cur.reach, Not(Eq(m, IntLit(0))))
	mv := x.mapSel(x.cur, mt, m)
	had := Select(MapHas(mv), k)
	nm := MkMapV(StoreT(MapHas(mv), k, tTrue), StoreT(MapVal(mv), k, v), Ite(had, MapCard(mv), mk(SInt, "(+ %s 1)", MapCard(mv))))
	x.mapSet(x.cur, mt, m, x.b.Def("mapv", nm))
	x.mapUpdated(mt, m, mv, k, &v)
}

func (x *Exec) mapDelete(f *Frame, mt *types.Map, m, k Term) {
	x.cands.addKey(k)
	mv := x.mapSel(x.cur, mt, m)
	had := And(Not(Eq(m, IntLit(0))), Select(MapHas(mv), k))
	nm := MkMapV(StoreT(MapHas(mv), k, tFalse), MapVal(mv), Ite(had, mk(SInt, "(- %s 1)", MapCard(mv)), MapCard(mv)))
	// delete on a nil map is a no-op
	x.mapSet(x.cur, mt, m, x.b.Def("mapv", Ite(Eq(m, IntLit(0)), mv, nm)))
	x.mapUpdated(mt, m, mv, k, nil)
}

// mapUpdated emits the ground facts of derived map measures (ghost summation sz) after an update.
func (x *Exec) mapUpdated(mt *types.Map, m, before, k Term, v *Term) {
	if x.tm.SortOf(mt.Key()) != SStr || x.tm.SortOf(mt.Elem()) != SStr {
		return
	}
	after := x.mapSel(x.cur, mt, m)
	x.szFacts(before, after, k, v)
}

func (x *Exec) execRange(f *Frame, ins ssa.Instruction) {
	switch i := ins.(type) {
	case *ssa.Range:
		if _, ok := i.X.Type().Underlying().(*types.Map); !ok {
			x.fail("range over string")
		}
		// iterator token: remember the map; nothing is visited yet; keep the set of keys present now
		m := x.term(f, i.X)
		f.regs[i] = Val{T: m}
		mt := i.X.Type().Underlying().(*types.Map)
		ks := x.tm.SortOf(mt.Key())
		x.cur.heaps[x.visitedName(i)] = x.tm.ConstArray(ks, tFalse)
		x.initHeap(x.visitedName(i), ArraySort(ks, SBool))
		if x.rangeEntry == nil {
			x.rangeEntry = map[*ssa.Range]Term{}
		}
		x.rangeEntry[i] = x.b.Def("range_entry_has", MapHas(x.mapSel(x.cur, mt, m)))
	case *ssa.Next:
		if i.IsString {
			x.fail("range over string")
		}
		rng := i.Iter.(*ssa.Range)
		mt := rng.X.Type().Underlying().(*types.Map)
		m := f.regs[rng].T
		mv := x.mapSel(x.cur, mt, m)
		ks := x.tm.SortOf(mt.Key())
		k := x.b.Fresh("rk", ks)
		ok := x.b.Fresh("rok", SBool)
		x.cands.addKey(k)
		vis := x.visitedHeap(f, rng)
		// ok => key is present now and not visited; !ok => every present key (that existed at loop entry) was visited
		x.assume(x.cur.reach, Implies(ok, And(Not(Eq(m, IntLit(0))), Select(MapHas(mv), k), Not(Select(vis, k)))))
		x.assume(x.cur.reach, x.typeFact(k, mt.Key(), x.cur.Alloc(x)))
		val := x.b.Def("rv", Select(MapVal(mv), k))
		x.assume(x.cur.reach, Implies(ok, x.typeFact(val, mt.Elem(), x.cur.Alloc(x))))
		// exhaustion fact is quantified: kept as an instantiable hypothesis over key candidates
		x.rangeExhausted(f, rng, ok, mv, vis, ks)
		if x.rangeOfLoop == nil {
			x.rangeOfLoop = map[*ssa.BasicBlock]*ssa.Range{}
		}
		x.rangeOfLoop[i.Block()] = rng
		// mark visited
		x.setVisited(f, rng, x.b.Def("vis", StoreT(vis, k, tTrue)))
		f.regs[i] = Val{Tup: []Val{{T: ok}, {T: k}, {T: val}}}
	}
}

func (x *Exec) visitedName(rng *ssa.Range) string {
	return fmt.Sprintf("$visited_%s", rng.Name())
}

func (x *Exec) visitedHeap(f *Frame, rng *ssa.Range) Term {
	mt := rng.X.Type().Underlying().(*types.Map)
	ks := x.tm.SortOf(mt.Key())
	return x.cur.Heap(x, x.visitedName(rng), ArraySort(ks, SBool))
}

func (x *Exec) setVisited(f *Frame, rng *ssa.Range, t Term) {
	x.cur.heaps[x.visitedName(rng)] = t
}

func (x *Exec) rangeExhausted(f *Frame, rng *ssa.Range, ok, mv, vis Term, ks Sort) {
	// forall k :: !ok && has(k) ==> visited(k)   (instantiated at key candidates per obligation)
	q := &Expr{Kind: EQuant, Name: "forall", Vars: []QVar{{Name: "k$", Type: "sort:" + string(ks)}},
		Args: []*Expr{{Kind: ECall, Name: "$exhausted", Args: []*Expr{{Kind: EIdent, Name: "k$"}}}}}
	entryHas, okE := x.rangeEntry[rng]
	if !okE {
		entryHas = MapHas(mv)
	}
	env := x.newEnv(map[string]TV{"$ok": {ok, nil}, "$has": {MapHas(mv), nil}, "$vis": {vis, nil}, "$hasentry": {entryHas, nil}}, x.cur.clone(), x.entry)
	x.addQhyp(x.cur, qhyp{mark: x.b.Mark(), guard: x.cur.reach, expr: q, env: env, src: "map range exhausted"})
}

// ---------------------------------------------------------------------------
// arithmetic

func (x *Exec) binop(f *Frame, op token.Token, a, b Term, at, bt, rt types.Type, pos token.Pos) Term {
	switch op {
	case token.EQL, token.NEQ:
		var eq Term
		if a.Sort != b.Sort {
			x.fail("comparison of %s and %s", a.Sort, b.Sort)
		}
		if isSliceSort(a.Sort) {
			// only comparison with nil is legal in Go
			if b.S == x.tm.Zero(bt).S {
				eq = mk(SBool, "(= %s 0)", SlLen(a))
				x.note("slice == nil is modelled as len == 0")
			} else {
				eq = mk(SBool, "(= %s 0)", SlLen(b))
			}
		} else {
			eq = Eq(a, b)
		}
		if op == token.NEQ {
			return Not(eq)
		}
		return eq
	case token.LSS, token.LEQ, token.GTR, token.GEQ:
		sym := map[token.Token]string{token.LSS: "<", token.LEQ: "<=", token.GTR: ">", token.GEQ: ">="}[op]
		if a.Sort == SInt {
			return mk(SBool, "(%s %s %s)", sym, a, b)
		}
		if a.Sort == SStr {
			x.b.DeclFun("str_lt", []Sort{SStr, SStr}, SBool)
			lt := func(p, q Term) Term { return App(SBool, "str_lt", p, q) }
			switch op {
			case token.LSS:
				return lt(a, b)
			case token.GTR:
				return lt(b, a)
			case token.LEQ:
				return Not(lt(b, a))
			default:
				return Not(lt(a, b))
			}
		}
		if a.Sort == SF64 {
			x.b.DeclFun("f64_lt", []Sort{SF64, SF64}, SBool)
			x.b.DeclFun("f64_le", []Sort{SF64, SF64}, SBool)
			switch op {
			case token.LSS:
				return App(SBool, "f64_lt", a, b)
			case token.GTR:
				return App(SBool, "f64_lt", b, a)
			case token.LEQ:
				return App(SBool, "f64_le", a, b)
			default:
				return App(SBool, "f64_le", b, a)
			}
		}
		x.fail("ordering on %s", a.Sort)
	case token.LAND:
		return And(a, b)
	case token.LOR:
		return Or(a, b)
	}
	if a.Sort == SStr && op == token.ADD {
		return x.strConcat(nil, a, b)
	}
	if a.Sort == SF64 {
		name := map[token.Token]string{token.ADD: "f64_add", token.SUB: "f64_sub", token.MUL: "f64_mul", token.QUO: "f64_div"}[op]
		if name == "" {
			x.fail("float op %s", op)
		}
		x.b.DeclFun(name, []Sort{SF64, SF64}, SF64)
		return App(SF64, name, a, b)
	}
	if a.Sort != SInt {
		x.fail("binary %s on %s", op, a.Sort)
	}
	var raw Term
	switch op {
	case token.ADD:
		raw = mk(SInt, "(+ %s %s)", a, b)
	case token.SUB:
		raw = mk(SInt, "(- %s %s)", a, b)
	case token.MUL:
		raw = mk(SInt, "(* %s %s)", a, b)
	case token.QUO, token.REM:
		if !x.noSafety() {
			x.obligeGround(f, "div0", x.safetyTags(), x.cur.reach, Not(Eq(b, IntLit(0))), "integer divide by zero", pos)
		}
		x.assume(x.cur.reach, Not(Eq(b, IntLit(0))))
		if isUnsigned(rt) {
			if op == token.QUO {
				return mk(SInt, "(div %s %s)", a, b)
			}
			return mk(SInt, "(mod %s %s)", a, b)
		}
		q := mk(SInt, "(ite (>= %s 0) (div %s %s) (- (div (- %s) %s)))", a, a, b, a, b)
		if op == token.QUO {
			return wrapTo(q, rt)
		}
		return mk(SInt, "(- %s (* %s %s))", a, b, q)
	case token.SHL:
		if n, ok := smallConst(b); ok {
			raw = mk(SInt, "(* %s %s)", a, pow2(IntLit(n)))
		} else {
			x.b.DeclFun("int_shl", []Sort{SInt, SInt}, SInt)
			return x.b.Def("shl", wrapTo(App(SInt, "int_shl", a, b), rt))
		}
	case token.SHR:
		if n, ok := smallConst(b); ok {
			return mk(SInt, "(div %s %s)", a, pow2(IntLit(n)))
		}
		x.b.DeclFun("int_shr", []Sort{SInt, SInt}, SInt)
		t := x.b.Def("shr", App(SInt, "int_shr", a, b))
		x.assume(x.cur.reach, rangeFact(t, rt))
		return t
	case token.AND, token.OR, token.XOR, token.AND_NOT:
		name := map[token.Token]string{token.AND: "int_and", token.OR: "int_or", token.XOR: "int_xor", token.AND_NOT: "int_andnot"}[op]
		x.b.DeclFun(name, []Sort{SInt, SInt}, SInt)
		t := x.b.Def("bit", App(SInt, name, a, b))
		x.assume(x.cur.reach, rangeFact(t, rt))
		if op == token.AND && isUnsigned(rt) {
			x.assume(x.cur.reach, And(mk(SBool, "(<= %s %s)", t, a), mk(SBool, "(<= %s %s)", t, b)))
		}
		return t
	default:
		x.fail("binary %s", op)
	}
	if f.top && x.con != nil && x.con.Arith == "mathematical" {
		x.note("machine arithmetic treated as mathematical in " + x.fnKeyShort() + " (arith mathematical): +, -, * are assumed not to overflow")
		lo, hi, _ := intRange(rt)
		x.assume(x.cur.reach, And(mk(SBool, "(<= %s %s)", bigTerm(lo), raw), mk(SBool, "(<= %s %s)", raw, bigTerm(hi))))
		return raw
	}
	if x.checked && f.top {
		lo, hi, _ := intRange(rt)
		g := And(mk(SBool, "(<= %s %s)", bigTerm(lo), raw), mk(SBool, "(<= %s %s)", raw, bigTerm(hi)))
		x.obligeGround(f, "nowrap", x.safetyTags(), x.cur.reach, g, "arithmetic "+op.String()+" must not wrap (arith checked)", pos)
	}
	return wrapTo(raw, rt)
}

func smallConst(t Term) (int64, bool) {
	var n int64
	if _, err := fmt.Sscanf(t.S, "%d", &n); err == nil && fmt.Sprint(n) == t.S && n >= 0 && n < 128 {
		return n, true
	}
	return 0, false
}
