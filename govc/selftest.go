package main

// Self-test: the must-fail corpus. Every /verif/mutants/<prop>/<name>.patch is applied in memory
// (packages.Config.Overlay -- /repo is not touched), the property's obligations are regenerated and
// solved, and the obligations named in <name>.expect must be among the failed ones. A patch whose
// .expect contains the single word NONE is a harmless refactor: no verdict may change.

import (
	"fmt"
	"os"
	"os/exec"
	"path/filepath"
	"sort"
	"strings"
	"time"
)

func applyPatchToOverlay(repo, patchFile string) (map[string][]byte, error) {
	data, err := os.ReadFile(patchFile)
	if err != nil {
		return nil, err
	}
	// files touched
	var files []string
	for _, l := range strings.Split(string(data), "\n") {
		if strings.HasPrefix(l, "+++ ") {
			p := strings.TrimSpace(l[4:])
			p = strings.TrimPrefix(strings.TrimPrefix(p, "b/"), "a/")
			if i := strings.IndexAny(p, "\t"); i >= 0 {
				p = p[:i]
			}
			files = append(files, p)
		}
	}
	dir, err := os.MkdirTemp("", "govc-mut-")
	if err != nil {
		return nil, err
	}
	defer os.RemoveAll(dir)
	for _, f := range files {
		src, err := os.ReadFile(filepath.Join(repo, f))
		if err != nil {
			return nil, err
		}
		dst := filepath.Join(dir, f)
		_ = os.MkdirAll(filepath.Dir(dst), 0o755)
		if err := os.WriteFile(dst, src, 0o644); err != nil {
			return nil, err
		}
	}
	cmd := exec.Command("patch", "-p1", "--no-backup-if-mismatch", "-s", "-i", patchFile)
	cmd.Dir = dir
	if out, err := cmd.CombinedOutput(); err != nil {
		return nil, fmt.Errorf("patch %s does not apply: %v\n%s", patchFile, err, out)
	}
	ov := map[string][]byte{}
	for _, f := range files {
		b, err := os.ReadFile(filepath.Join(dir, f))
		if err != nil {
			return nil, err
		}
		ov[filepath.Join(repo, f)] = b
	}
	return ov, nil
}

func cmdSelftest(args []string) int {
	f := parseFlags(args)
	root := filepath.Join(f.verif, "mutants")
	var patches []string
	_ = filepath.Walk(root, func(p string, info os.FileInfo, err error) error {
		if err == nil && !info.IsDir() && strings.HasSuffix(p, ".patch") {
			patches = append(patches, p)
		}
		return nil
	})
	sort.Strings(patches)
	bad := 0
	ran := 0
	for _, p := range patches {
		prop := filepath.Base(filepath.Dir(p))
		if f.prop != "" && prop != f.prop {
			continue
		}
		name := strings.TrimSuffix(filepath.Base(p), ".patch")
		expData, err := os.ReadFile(strings.TrimSuffix(p, ".patch") + ".expect")
		if err != nil {
			fmt.Printf("SELFTEST-ERROR %s/%s: no .expect file\n", prop, name)
			bad++
			continue
		}
		var expect []string
		for _, l := range strings.Split(string(expData), "\n") {
			if l = strings.TrimSpace(l); l != "" && !strings.HasPrefix(l, "#") {
				expect = append(expect, l)
			}
		}
		start := time.Now()
		ov, err := applyPatchToOverlay(f.repo, p)
		if err != nil {
			fmt.Printf("SELFTEST-ERROR %s/%s: %v\n", prop, name, err)
			bad++
			continue
		}
		ff := *f
		ff.prop = prop
		w, err := collect(&ff, ov)
		if err != nil {
			fmt.Printf("SELFTEST-ERROR %s/%s: %v\n", prop, name, err)
			bad++
			continue
		}
		dir, _ := os.MkdirTemp("", "govc-selftest-")
		results := runAll(&ff, w, dir)
		os.RemoveAll(dir)
		var failed []string
		for _, r := range results {
			if r.q != nil && r.q.Ob != nil && r.q.Ob.mustSat {
				// cover checks: only a refuted cover (vacuity) counts
				if r.Result == "vacuous" && r.Kind == "cover" {
					failed = append(failed, r.Name)
				}
				continue
			}
			switch r.Result {
			case "sat", "disagree", "unknown", "timeout", "error":
				failed = append(failed, r.Name)
			}
		}
		ran++
		harmless := len(expect) == 1 && expect[0] == "NONE"
		ok := true
		detail := ""
		if harmless {
			if len(failed) > 0 || len(w.engineErrs) > 0 {
				ok = false
				detail = fmt.Sprintf("harmless change raises %v %v", failed, w.engineErrs)
			}
		} else {
			for _, e := range expect {
				found := false
				if strings.HasPrefix(e, "ENGINE:") {
					for _, ee := range w.engineErrs {
						if strings.Contains(ee, strings.TrimSpace(e[7:])) {
							found = true
						}
					}
				}
				for _, fn := range failed {
					if strings.Contains(fn, e) {
						found = true
					}
				}
				if !found {
					ok = false
					detail += fmt.Sprintf(" expected failing obligation %q not reported;", e)
				}
			}
			if len(w.engineErrs) > 0 {
				detail += fmt.Sprintf(" engine errors: %v", w.engineErrs)
			}
		}
		status := "detected"
		if harmless {
			status = "quiet"
		}
		if !ok {
			status = "MISSED"
			bad++
		}
		fmt.Printf("selftest %-8s %-4s %-55s %d failed obligations %.1fs %s\n", status, prop, name, len(failed), time.Since(start).Seconds(), detail)
		if f.verbose {
			for _, fn := range failed {
				fmt.Printf("    failed: %s\n", fn)
			}
		}
	}
	fmt.Printf("selftest: %d mutants, %d not as expected\n", ran, bad)
	if bad > 0 {
		return 1
	}
	return 0
}
