package main

// Mapping of Go types to SMT sorts, zero values, integer ranges and heap names.

import (
	"fmt"
	"go/types"
	"math/big"
	"strings"
)

type TypeMap struct {
	b *Builder
}

func isByteSlice(t types.Type) bool {
	if s, ok := t.Underlying().(*types.Slice); ok {
		if b, ok := s.Elem().Underlying().(*types.Basic); ok && (b.Kind() == types.Uint8) {
			return true
		}
	}
	return false
}

func typeKey(t types.Type) string {
	s := types.TypeString(t, func(p *types.Package) string {
		parts := strings.Split(p.Path(), "/")
		return parts[len(parts)-1]
	})
	return sanitize(s)
}

// namedStruct returns the named type and struct for T or *T.
func namedStruct(t types.Type) (*types.Named, *types.Struct) {
	if p, ok := t.Underlying().(*types.Pointer); ok {
		t = p.Elem()
	}
	t = types.Unalias(t)
	n, _ := t.(*types.Named)
	s, _ := t.Underlying().(*types.Struct)
	return n, s
}

// directStruct: t itself (not a pointer to it) is a named struct type.
func directStruct(t types.Type) (*types.Named, *types.Struct) {
	if _, ok := t.Underlying().(*types.Pointer); ok {
		return nil, nil
	}
	return namedStruct(t)
}

// SortOf maps a Go type to its SMT sort (declaring datatypes on demand).
func (tm *TypeMap) SortOf(t types.Type) Sort {
	t = types.Unalias(t)
	switch u := t.Underlying().(type) {
	case *types.Basic:
		switch {
		case u.Info()&types.IsBoolean != 0:
			return SBool
		case u.Info()&types.IsInteger != 0:
			return SInt
		case u.Info()&types.IsString != 0:
			return SStr
		case u.Info()&types.IsFloat != 0:
			return SF64
		case u.Kind() == types.UnsafePointer:
			return SInt
		case u.Kind() == types.UntypedNil:
			return SInt
		}
	case *types.Pointer:
		return SInt
	case *types.Slice:
		if isByteSlice(t) {
			return SStr
		}
		return SliceSort(tm.SortOf(u.Elem()))
	case *types.Array:
		return ArraySort(SInt, tm.SortOf(u.Elem()))
	case *types.Map:
		return SInt // reference into the map heap
	case *types.Chan:
		return SInt
	case *types.Signature:
		return SInt // closure token
	case *types.Interface:
		return SIfc
	case *types.Struct:
		return tm.structSort(t, u)
	case *types.Tuple:
		return tm.tupleSort(u)
	}
	panic(unsupported("type %s", t))
}

func (tm *TypeMap) structSort(t types.Type, s *types.Struct) Sort {
	name := "S_" + typeKey(t)
	if s.NumFields() == 0 {
		tm.b.DeclSort(name, fmt.Sprintf("(declare-datatypes ((%s 0)) (((mk_%s))))", name, name))
		return Sort(name)
	}
	if tm.b.sortSeen[name] {
		return Sort(name)
	}
	var fs []string
	for i := 0; i < s.NumFields(); i++ {
		f := s.Field(i)
		fs = append(fs, fmt.Sprintf("(%s_%s %s)", name, sanitize(f.Name()), tm.SortOf(f.Type())))
	}
	tm.b.DeclSort(name, fmt.Sprintf("(declare-datatypes ((%s 0)) (((mk_%s %s))))", name, name, strings.Join(fs, " ")))
	return Sort(name)
}

func (tm *TypeMap) tupleSort(tu *types.Tuple) Sort {
	var parts []string
	for i := 0; i < tu.Len(); i++ {
		parts = append(parts, string(tm.SortOf(tu.At(i).Type())))
	}
	name := "Tup_" + sanitize(strings.Join(parts, "_"))
	if tm.b.sortSeen[name] {
		return Sort(name)
	}
	var fs []string
	for i, p := range parts {
		fs = append(fs, fmt.Sprintf("(%s_%d %s)", name, i, p))
	}
	tm.b.DeclSort(name, fmt.Sprintf("(declare-datatypes ((%s 0)) (((mk_%s %s))))", name, name, strings.Join(fs, " ")))
	return Sort(name)
}

// StructField selects field i of a struct value term.
func (tm *TypeMap) StructField(v Term, t types.Type, i int) Term {
	s := t.Underlying().(*types.Struct)
	name := string(tm.SortOf(t))
	f := s.Field(i)
	return Term{fmt.Sprintf("(%s_%s %s)", name, sanitize(f.Name()), v.S), tm.SortOf(f.Type())}
}

// StructWith rebuilds a struct value with field i replaced.
func (tm *TypeMap) StructWith(v Term, t types.Type, i int, nv Term) Term {
	s := t.Underlying().(*types.Struct)
	name := string(tm.SortOf(t))
	var args []string
	for j := 0; j < s.NumFields(); j++ {
		if j == i {
			args = append(args, nv.S)
		} else {
			args = append(args, tm.StructField(v, t, j).S)
		}
	}
	return Term{fmt.Sprintf("(mk_%s %s)", name, strings.Join(args, " ")), Sort(name)}
}

func (tm *TypeMap) TupleField(v Term, tu *types.Tuple, i int) Term {
	name := string(tm.tupleSort(tu))
	return Term{fmt.Sprintf("(%s_%d %s)", name, i, v.S), tm.SortOf(tu.At(i).Type())}
}

func (tm *TypeMap) MkTuple(tu *types.Tuple, vs []Term) Term {
	name := string(tm.tupleSort(tu))
	xs := make([]string, len(vs))
	for i, v := range vs {
		xs[i] = v.S
	}
	return Term{fmt.Sprintf("(mk_%s %s)", name, strings.Join(xs, " ")), Sort(name)}
}

// Zero returns the zero value of a Go type.
func (tm *TypeMap) Zero(t types.Type) Term {
	t = types.Unalias(t)
	switch u := t.Underlying().(type) {
	case *types.Basic:
		switch {
		case u.Info()&types.IsBoolean != 0:
			return tFalse
		case u.Info()&types.IsInteger != 0:
			return IntLit(0)
		case u.Info()&types.IsString != 0:
			return Term{"str_empty", SStr}
		case u.Info()&types.IsFloat != 0:
			tm.b.DeclFun("f64_zero", nil, SF64)
			return Term{"f64_zero", SF64}
		default:
			return IntLit(0)
		}
	case *types.Pointer, *types.Map, *types.Chan, *types.Signature:
		return IntLit(0)
	case *types.Slice:
		if isByteSlice(t) {
			return Term{"bytes_nil", SStr}
		}
		es := tm.SortOf(u.Elem())
		return tm.EmptySlice(es)
	case *types.Array:
		return tm.ConstArray(SInt, tm.Zero(u.Elem()))
	case *types.Interface:
		return nilIfc
	case *types.Struct:
		name := string(tm.SortOf(t))
		if u.NumFields() == 0 {
			return Term{"mk_" + name, Sort(name)}
		}
		var args []string
		for i := 0; i < u.NumFields(); i++ {
			args = append(args, tm.Zero(u.Field(i).Type()).S)
		}
		return Term{fmt.Sprintf("(mk_%s %s)", name, strings.Join(args, " ")), Sort(name)}
	}
	panic(unsupported("zero value of %s", t))
}

// EmptySlice is the nil slice: length 0 over an unconstrained element array
// (element arrays are never compared, only indexed below len).
func (tm *TypeMap) EmptySlice(es Sort) Term {
	name := "nil_elems_" + sanitize(string(es))
	tm.b.DeclFun(name, nil, ArraySort(SInt, es))
	return MkSlice(Term{name, ArraySort(SInt, es)}, IntLit(0))
}

func (tm *TypeMap) ConstArray(k Sort, v Term) Term {
	s := ArraySort(k, v.Sort)
	return Term{fmt.Sprintf("((as const %s) %s)", s, v.S), s}
}

// IntRange returns the inclusive range of an integer type, or ok=false.
func intRange(t types.Type) (lo, hi *big.Int, ok bool) {
	b, isb := types.Unalias(t).Underlying().(*types.Basic)
	if !isb || b.Info()&types.IsInteger == 0 {
		return nil, nil, false
	}
	bits := 64
	switch b.Kind() {
	case types.Int8, types.Uint8:
		bits = 8
	case types.Int16, types.Uint16:
		bits = 16
	case types.Int32, types.Uint32:
		bits = 32
	}
	one := big.NewInt(1)
	if b.Info()&types.IsUnsigned != 0 {
		hi = new(big.Int).Sub(new(big.Int).Lsh(one, uint(bits)), one)
		return big.NewInt(0), hi, true
	}
	hi = new(big.Int).Sub(new(big.Int).Lsh(one, uint(bits-1)), one)
	lo = new(big.Int).Neg(new(big.Int).Lsh(one, uint(bits-1)))
	return lo, hi, true
}

func bigTerm(n *big.Int) Term {
	if n.Sign() < 0 {
		return Term{"(- " + new(big.Int).Neg(n).String() + ")", SInt}
	}
	return Term{n.String(), SInt}
}

// RangeFact is the typing fact of a value of integer type.
func rangeFact(v Term, t types.Type) Term {
	lo, hi, ok := intRange(t)
	if !ok {
		return tTrue
	}
	return And(mk(SBool, "(<= %s %s)", bigTerm(lo), v), mk(SBool, "(<= %s %s)", v, bigTerm(hi)))
}

// wrap reduces an integer term into the range of t (two's complement wrap).
func wrapTo(v Term, t types.Type) Term {
	lo, hi, ok := intRange(t)
	if !ok {
		return v
	}
	mod := new(big.Int).Add(new(big.Int).Sub(hi, lo), big.NewInt(1))
	if lo.Sign() == 0 {
		return mk(SInt, "(mod %s %s)", v, bigTerm(mod))
	}
	// signed: ((v - lo) mod 2^w) + lo
	return mk(SInt, "(+ (mod (- %s %s) %s) %s)", v, bigTerm(lo), bigTerm(mod), bigTerm(lo))
}

func isUnsigned(t types.Type) bool {
	b, ok := types.Unalias(t).Underlying().(*types.Basic)
	return ok && b.Info()&types.IsUnsigned != 0
}

func isInteger(t types.Type) bool {
	b, ok := types.Unalias(t).Underlying().(*types.Basic)
	return ok && b.Info()&types.IsInteger != 0
}

// heapName is the name of the field heap for field f of named struct n.
func heapName(n *types.Named, f *types.Var) string {
	return "H_" + typeKey(n) + "_" + sanitize(f.Name())
}

type unsupportedErr struct{ msg string }

func (u unsupportedErr) Error() string { return u.msg }

func unsupported(format string, args ...interface{}) unsupportedErr {
	return unsupportedErr{fmt.Sprintf(format, args...)}
}
