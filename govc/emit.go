package main

// Obligation emission (SMT-LIB scripts) and solver racing.

import (
	"bytes"
	"context"
	"fmt"
	"os"
	"os/exec"
	"path/filepath"
	"strings"
	"sync"
	"time"
)

type Query struct {
	Ob      *Obligation
	Script  string
	Err     error
	Values  []string
	Result  string // unsat | sat | unknown | timeout | error
	Solver  string
	Ms      int64
	Model   map[string]string
	Output  string
	SizeB   int
	CandN   int
}

func (b *Builder) child() *Builder {
	return &Builder{sortSeen: map[string]bool{}, funSeen: map[string]bool{}, consts: map[string]Sort{}, strLits: b.strLits}
}

// translateObligation instantiates the quantified hypotheses in scope and the goal.
func (x *Exec) translateObligation(ob *Obligation) (q *Query) {
	q = &Query{Ob: ob}
	defer func() {
		if r := recover(); r != nil {
			switch e := r.(type) {
			case specErr:
				q.Err = fmt.Errorf("contract error in %s (%s): %s", ob.Name, ob.Src, e.msg)
			case unsupportedErr:
				q.Err = fmt.Errorf("unsupported in %s: %s", ob.Name, e.msg)
			default:
				panic(r)
			}
		}
	}()
	cands := x.cands.cloneUpTo(ob.mark)
	var lines []string
	var goal Term
	hyps := append([]qhyp{}, ob.extraHyp...)
	for _, h := range x.qhyps {
		if h.mark <= ob.mark {
			hyps = append(hyps, h)
		}
	}
	rounds := 3
	if len(hyps) == 0 && (ob.expr == nil || !containsQuant(ob.expr, x.db)) {
		rounds = 1
	}
	for round := 0; round < rounds; round++ {
		sub := x.b.child()
		var facts []Term
		mkEnv := func(base *Env, assume bool, tag string) *Env {
			inst := 0
			n := *base
			n.sink = sub
			n.cands = cands
			n.assume = assume
			n.facts = &facts
			n.useCand = round > 0
			n.skTag = tag
			n.inst = &inst
			return &n
		}
		var hs []Term
		for k, h := range hyps {
			t := mkEnv(h.env, true, fmt.Sprintf("h%d", k)).Bool(h.expr)
			hs = append(hs, Implies(h.guard, t))
		}
		if ob.expr != nil {
			g := mkEnv(ob.env, false, "g").Bool(ob.expr)
			goal = Implies(ob.guard, g)
		} else {
			goal = Implies(ob.guard, *ob.ground)
		}
		lines = append([]string{}, sub.lines...)
		seenFact := map[string]bool{}
		for _, f := range facts {
			if !seenFact[f.S] {
				seenFact[f.S] = true
				lines = append(lines, "(assert "+f.S+")")
			}
		}
		for _, h := range hs {
			if h.S != "true" {
				lines = append(lines, "(assert "+h.S+")")
			}
		}
	}
	q.CandN = cands.size()
	vals := x.modelTerms()
	for _, l := range lines {
		if strings.HasPrefix(l, "(declare-const sk_") {
			f := strings.Fields(l)
			if len(f) == 3 && (f[2] == "Int)" || f[2] == "Bool)") {
				vals = append(vals, f[1])
			}
		}
	}
	if ob.mustSat {
		// cover: hypotheses + reachability must be satisfiable
		q.Script = x.b.Script(ob.mark, append(lines, "(assert "+ob.guard.S+")"), tFalse, nil)
		// Script asserts (not false) which is harmless
	} else {
		q.Script = x.b.Script(ob.mark, lines, goal, vals)
	}
	q.Values = vals
	q.SizeB = len(q.Script)
	return q
}

// modelTerms: the ground terms whose values describe a counterexample input.
func (x *Exec) modelTerms() []string {
	var out []string
	seen := map[string]bool{}
	add := func(s string) {
		if !seen[s] {
			seen[s] = true
			out = append(out, s)
		}
	}
	for _, in := range x.inputTerms() {
		add(in)
	}
	for _, mt := range x.modelExtra {
		add(mt)
	}
	return out
}

type solverSpec struct {
	name string
	args []string
}

func solvers(timeoutS int) []solverSpec {
	return []solverSpec{
		{"z3-new", []string{"z3-new", fmt.Sprintf("-T:%d", timeoutS), "-smt2"}},
		{"z3", []string{"z3", fmt.Sprintf("-T:%d", timeoutS), "-smt2"}},
		{"cvc5", []string{"cvc5", "--lang=smt2", fmt.Sprintf("--tlimit=%d", timeoutS*1000)}},
	}
}

// runSolvers races the installed solvers on one script. In "all" mode every solver runs to its
// answer (thorough tier: no solver may disagree).
func runSolvers(dir, name, script string, timeoutS int, all bool, seed int) (result, solver string, ms int64, output string, perSolver map[string]string) {
	path := filepath.Join(dir, sanitize(name)+".smt2")
	script = "(set-logic ALL)\n" + script
	// cvc5 wants produce-models before set-logic
	script = "(set-option :produce-models true)\n" + strings.Replace(script, "(set-option :produce-models true)\n", "", 1)
	_ = os.WriteFile(path, []byte(script), 0o644)
	type ans struct {
		solver, res, out string
		ms           int64
	}
	ctx, cancel := context.WithCancel(context.Background())
	defer cancel()
	ch := make(chan ans, 3)
	specs := solvers(timeoutS)
	var wg sync.WaitGroup
	for _, sp := range specs {
		wg.Add(1)
		go func(sp solverSpec) {
			defer wg.Done()
			start := time.Now()
			args := append([]string{}, sp.args[1:]...)
			if seed != 0 && strings.HasPrefix(sp.name, "z3") {
				args = append(args, fmt.Sprintf("smt.random_seed=%d", seed), fmt.Sprintf("sat.random_seed=%d", seed))
			}
			if seed != 0 && sp.name == "cvc5" {
				args = append(args, fmt.Sprintf("--seed=%d", seed))
			}
			args = append(args, path)
			cctx, ccancel := context.WithTimeout(ctx, time.Duration(timeoutS+2)*time.Second)
			defer ccancel()
			cmd := exec.CommandContext(cctx, sp.args[0], args...)
			var buf bytes.Buffer
			cmd.Stdout = &buf
			cmd.Stderr = &buf
			_ = cmd.Run()
			out := buf.String()
			first := strings.TrimSpace(strings.SplitN(out, "\n", 2)[0])
			res := "unknown"
			switch {
			case first == "unsat" || first == "sat":
				res = first
			case strings.Contains(first, "timeout") || cctx.Err() != nil:
				res = "timeout"
			case first == "unknown":
				res = "unknown"
			default:
				res = "error"
			}
			ch <- ans{sp.name, res, out, time.Since(start).Milliseconds()}
		}(sp)
	}
	go func() { wg.Wait(); close(ch) }()
	perSolver = map[string]string{}
	best := ans{res: "unknown"}
	for a := range ch {
		perSolver[a.solver] = a.res
		if a.res == "unsat" || a.res == "sat" {
			if best.res != "unsat" && best.res != "sat" {
				best = a
				if !all {
					cancel()
				}
			} else if best.res != a.res {
				best = ans{solver: best.solver + "+" + a.solver, res: "disagree", out: best.out + "\n---\n" + a.out}
			}
		} else if best.res == "unknown" && a.res != "unknown" {
			if best.solver == "" {
				best = a
			}
		} else if best.solver == "" {
			best = a
		}
	}
	return best.res, best.solver, best.ms, best.out, perSolver
}

// parseValues parses a (get-value ...) answer: ((term value) ...)
func parseValues(out string) map[string]string {
	m := map[string]string{}
	i := strings.Index(out, "((")
	if i < 0 {
		return m
	}
	body := out[i:]
	// find the matching close of the outer list
	d := 0
	end := -1
	for k, c := range body {
		if c == '(' {
			d++
		} else if c == ')' {
			d--
			if d == 0 {
				end = k
				break
			}
		}
	}
	if end < 0 {
		return m
	}
	for _, pair := range splitSexp(body[:end+1]) {
		kv := splitSexp(pair)
		if len(kv) == 2 {
			m[kv[0]] = kv[1]
		}
	}
	return m
}
