package main

// Obligation emission (SMT-LIB scripts) and solver racing.

import (
	"bytes"
	"context"
	"fmt"
	"os"
	"os/exec"
	"path/filepath"
	"regexp"
	"sort"
	"strings"
	"sync"
	"time"
)

var useHybrid = false

type Query struct {
	Ob               *Obligation
	Script           string
	Err              error
	Values           []string
	Result           string // unsat | sat | unknown | timeout | error
	Solver           string
	Ms               int64
	Model            map[string]string
	Output           string
	SizeB            int
	CandN            int
	Light            string // script without quantified hypotheses (tried first)
	Matched          int    // goal conjuncts discharged syntactically against hypotheses
	full             func() // builds Script lazily when the light script does not suffice
	QScript          string // solver-quantified variant
	QErr             string
	fullK            func(k int) // build the scripts with the k most relevant hypotheses (0 = all)
	NHyps, NRelevant int
	HypSrc           []string
	lazyInst         bool // build only QScript on the first call of full()
	noHybrid         bool
}

func (b *Builder) child() *Builder {
	return &Builder{sortSeen: map[string]bool{}, funSeen: map[string]bool{}, consts: map[string]Sort{}, strLits: b.strLits, prefix: "o"}
}

// translateObligation instantiates the quantified hypotheses in scope and the goal.
func (x *Exec) translateObligation(ob *Obligation) (q *Query) {
	q = &Query{Ob: ob}
	defer func() {
		if r := recover(); r != nil {
			switch e := r.(type) {
			case specErr:
				q.Err = fmt.Errorf("contract error in %s (%s): %s", ob.Name, ob.Src, e.msg)
			case unsupportedErr:
				q.Err = fmt.Errorf("unsupported in %s: %s", ob.Name, e.msg)
			default:
				panic(r)
			}
		}
	}()
	hyps := append([]qhyp{}, ob.extraHyp...)
	for _, h := range x.qhyps {
		if h.mark <= ob.mark && (ob.hyps == nil || ob.hyps[h.id]) {
			hyps = append(hyps, h)
		}
	}
	// syntactic discharge: a quantified conjunct of the goal that literally is a conjunct of a
	// hypothesis (same formula over the same state terms) is replaced by that hypothesis' guard
	var goalConjs []conj
	replaced := map[int]Term{}
	if ob.expr != nil && containsQuant(ob.expr, x.db) {
		goalConjs = conjuncts(ob.expr, ob.env, 0)
		hypCanon := map[string]Term{}
		for _, h := range hyps {
			for _, c := range conjuncts(h.expr, h.env, 0) {
				if !containsQuant(c.expr, x.db) {
					continue
				}
				if s, ok := canon(c); ok {
					if _, dup := hypCanon[s]; !dup {
						hypCanon[s] = h.guard
					}
				}
			}
		}
		for i, c := range goalConjs {
			if !containsQuant(c.expr, x.db) {
				continue
			}
			if s, ok := canon(c); ok {
				if g, hit := hypCanon[s]; hit {
					replaced[i] = g
				}
			}
		}
	}
	q.Matched = len(replaced)
	allMatchedEarly := len(goalConjs) > 0
	for i, c := range goalConjs {
		if _, hit := replaced[i]; !hit && containsQuant(c.expr, x.db) {
			allMatchedEarly = false
		}
	}
	if !ob.mustSat && ob.expr == nil && len(hyps) > 0 {
		q.Light = x.b.Script(ob.mark, nil, Implies(ob.guard, *ob.ground), nil)
	}
	if !ob.mustSat && ob.expr != nil && allMatchedEarly && len(hyps) > 0 {
		// every quantified conjunct was discharged syntactically: the rest is usually ground
		var parts []Term
		var facts []Term
		sub := x.b.child()
		for i, c := range goalConjs {
			if g, hit := replaced[i]; hit {
				parts = append(parts, g)
				continue
			}
			n := *c.env
			n.sink = sub
			n.cands = nil
			n.facts = &facts
			parts = append(parts, n.Bool(c.expr))
		}
		var ls []string
		ls = append(ls, sub.lines...)
		for _, f := range facts {
			ls = append(ls, "(assert "+f.S+")")
		}
		q.Light = x.b.Script(ob.mark, ls, Implies(ob.guard, And(parts...)), nil)
	}
	// premise selection: rank the hypotheses by the heap/function symbols they share with what is
	// left of the goal; the solver first gets the most relevant ones only (dropping hypotheses is
	// always sound), then more, then all
	goalSyms := map[string]bool{}
	if ob.expr != nil {
		for i, c := range goalConjs {
			if _, hit := replaced[i]; hit {
				continue
			}
			if s, ok := canon(c); ok {
				x.symbolsOf(s, goalSyms, 2)
			}
		}
		if len(goalConjs) == 0 {
			if s, ok := canon(conj{ob.expr, ob.env}); ok {
				x.symbolsOf(s, goalSyms, 2)
			}
		}
	} else {
		x.symbolsOf(ob.ground.S, goalSyms, 3)
	}
	hsyms := make([]map[string]bool, len(hyps))
	df := map[string]int{}
	for k, h := range hyps {
		hsyms[k] = map[string]bool{}
		if s, ok := canon(conj{h.expr, h.env}); ok {
			x.symbolsOf(s, hsyms[k], 1)
		}
		for sym := range hsyms[k] {
			df[sym]++
		}
	}
	type scored struct {
		k     int
		score float64
	}
	var sc []scored
	// relevance spreads from the goal's symbols through the hypotheses in a few levels (SInE style):
	// a hypothesis reached at level l contributes its symbols to level l+1
	level := map[string]int{}
	for s := range goalSyms {
		level[s] = 0
	}
	hlevel := make([]int, len(hyps))
	for k := range hlevel {
		hlevel[k] = -1
	}
	for l := 0; l < 4; l++ {
		var newly []int
		for k := range hyps {
			if hlevel[k] >= 0 {
				continue
			}
			for sym := range hsyms[k] {
				if lv, ok := level[sym]; ok && lv <= l && df[sym] <= 12 {
					hlevel[k] = l
					newly = append(newly, k)
					break
				}
			}
		}
		for _, k := range newly {
			for sym := range hsyms[k] {
				if _, ok := level[sym]; !ok {
					level[sym] = l + 1
				}
			}
		}
	}
	for k := range hyps {
		v := 0.0
		shared := 0
		for sym := range hsyms[k] {
			if goalSyms[sym] {
				v += 1.0 / float64(df[sym])
				shared++
			}
		}
		if len(hsyms[k]) > 0 {
			v *= float64(shared) / float64(len(hsyms[k])) // prefer hypotheses that talk about little else
		}
		if hlevel[k] >= 0 {
			v += 1.0 / float64(2+hlevel[k])
		}
		sc = append(sc, scored{k, v})
	}
	sort.SliceStable(sc, func(i, j int) bool { return sc[i].score > sc[j].score })
	ranked := make([]qhyp, 0, len(hyps))
	nRelevant := 0
	for _, e := range sc {
		ranked = append(ranked, hyps[e.k])
		if e.score > 0 {
			nRelevant++
		}
	}
	q.NHyps = len(hyps)
	q.NRelevant = nRelevant
	for _, e := range sc {
		q.HypSrc = append(q.HypSrc, fmt.Sprintf("%.3f %s :: %s", e.score, hyps[e.k].src, hyps[e.k].expr))
	}
	q.fullK = func(k int) {
		sel := ranked
		if k > 0 && k < len(ranked) {
			sel = ranked[:k]
		}
		q.Script, q.QScript, q.Err = "", "", nil
		x.fullScript(ob, q, sel, goalConjs, replaced)
	}
	q.full = func() { q.fullK(0) }
	q.lazyInst = len(hyps) > 0 || (x.con != nil && x.con.Hybrid)
	return q
}

var symRe = regexp.MustCompile(`\bsl_append_[A-Za-z0-9_()]+|\b(?:H|M|Cell|G|Box)_[A-Za-z0-9_]+|\bu_[A-Za-z0-9_]+|\bsz\b|\bstr_(?:prefix|concat|drop|lt)\b`)
var nameRe = regexp.MustCompile(`[A-Za-z_][A-Za-z0-9_]*![0-9]+`)

// symbolsOf collects the heap / uninterpreted-function symbols of a term, looking through define-fun
// names of the main builder up to the given depth.
func (x *Exec) symbolsOf(s string, out map[string]bool, depth int) {
	for _, m := range symRe.FindAllString(s, -1) {
		if i := strings.Index(m, "!"); i >= 0 {
			m = m[:i]
		}
		m = strings.TrimSuffix(m, "_at0")
		if strings.HasPrefix(m, "hv_") {
			m = m[3:]
		}
		out[m] = true
	}
	if depth <= 0 {
		return
	}
	seen := map[string]bool{}
	for _, n := range nameRe.FindAllString(s, -1) {
		if seen[n] {
			continue
		}
		seen[n] = true
		base := n[:strings.Index(n, "!")]
		for _, pre := range []string{"hv_", "m_"} {
			base = strings.TrimPrefix(base, pre)
		}
		if symRe.MatchString(base) {
			out[base] = true
		}
		if _, isDef := x.b.defs[n]; !isDef && !strings.HasPrefix(n, "reach") && !strings.HasPrefix(n, "edge") {
			out[n] = true // a declared constant (fresh value): a very specific symbol
		}
		if d, ok := x.b.defs[n]; ok && len(d) < 4000 {
			x.symbolsOf(d, out, depth-1)
		} else if x.activeChild != nil {
			if d, ok := x.activeChild.defs[n]; ok && len(d) < 4000 {
				x.symbolsOf(d, out, depth-1)
			}
		}
	}
}

// fullScript instantiates the quantified hypotheses in scope (three rounds of candidate collection).
func (x *Exec) fullScript(ob *Obligation, q *Query, hyps []qhyp, goalConjs []conj, replaced map[int]Term) {
	defer func() {
		if r := recover(); r != nil {
			switch e := r.(type) {
			case specErr:
				q.Err = fmt.Errorf("contract error in %s (%s): %s", ob.Name, ob.Src, e.msg)
			case unsupportedErr:
				q.Err = fmt.Errorf("unsupported in %s: %s", ob.Name, e.msg)
			default:
				panic(r)
			}
		}
	}()
	// hybrid script first: flat universal hypotheses stay quantified (E-matching in the solver),
	// alternating ones are instantiated by the generator. The fully generator-instantiated script
	// (quantifier-free, yields models) is built when the hybrid one does not prove the goal.
	if !ob.mustSat && q.lazyInst && (useHybrid || (x.con != nil && x.con.Hybrid)) && !q.noHybrid {
		func() {
			defer func() {
				if r := recover(); r != nil {
					if se, ok := r.(specErr); ok {
						q.QScript = ""
						q.QErr = se.msg
						return
					}
					panic(r)
				}
			}()
			lines, goal, _ := x.instantiate(ob, hyps, goalConjs, replaced, true)
			q.QScript = x.b.Script(ob.mark, lines, goal, nil)
		}()
		if q.QScript != "" {
			return
		}
	}
	if ob.mustSat && x.con != nil && x.con.Hybrid {
		// cover in a contract with solver-side quantifiers: the hypotheses stay quantified; the solver
		// can refute them (vacuity found) but will rarely produce a model
		lines, _, _ := x.instantiate(ob, hyps, nil, nil, true)
		q.Script = x.b.Script(ob.mark, append(lines, "(assert "+ob.guard.S+")"), tFalse, nil)
		q.SizeB = len(q.Script)
		return
	}
	lines, goal, cands := x.instantiate(ob, hyps, goalConjs, replaced, false)
	q.CandN = cands.size()
	vals := x.modelTerms()
	for _, l := range lines {
		if strings.HasPrefix(l, "(declare-const sk_") {
			f := strings.Fields(l)
			if len(f) == 3 && (f[2] == "Int)" || f[2] == "Bool)") {
				vals = append(vals, f[1])
			}
		}
	}
	if ob.mustSat {
		// cover: hypotheses + reachability must be satisfiable
		q.Script = x.b.Script(ob.mark, append(lines, "(assert "+ob.guard.S+")"), tFalse, nil)
		// Script asserts (not false) which is harmless
	} else {
		q.Script = x.b.Script(ob.mark, lines, goal, vals)
	}
	q.Values = vals
	q.SizeB = len(q.Script)
}

// modelTerms: the ground terms whose values describe a counterexample input.
func (x *Exec) modelTerms() []string {
	var out []string
	seen := map[string]bool{}
	add := func(s string) {
		if !seen[s] {
			seen[s] = true
			out = append(out, s)
		}
	}
	for _, in := range x.inputTerms() {
		add(in)
	}
	for _, mt := range x.modelExtra {
		add(mt)
	}
	return out
}

type solverSpec struct {
	name string
	args []string
}

func solvers(timeoutS int) []solverSpec {
	return []solverSpec{
		{"z3-new", []string{"z3-new", fmt.Sprintf("-T:%d", timeoutS), "-smt2"}},
		{"z3", []string{"z3", fmt.Sprintf("-T:%d", timeoutS), "-smt2"}},
		{"cvc5", []string{"cvc5", "--lang=smt2", fmt.Sprintf("--tlimit=%d", timeoutS*1000)}},
	}
}

// runSolvers races the installed solvers on one script. In "all" mode every solver runs to its
// answer (thorough tier: no solver may disagree).
func runSolvers(dir, name, script string, timeoutS int, all bool, seed int) (result, solver string, ms int64, output string, perSolver map[string]string) {
	path := filepath.Join(dir, sanitize(name)+".smt2")
	script = "(set-logic ALL)\n" + script
	// cvc5 wants produce-models before set-logic
	script = "(set-option :produce-models true)\n" + strings.Replace(script, "(set-option :produce-models true)\n", "", 1)
	_ = os.WriteFile(path, []byte(script), 0o644)
	type ans struct {
		solver, res, out string
		ms               int64
	}
	ctx, cancel := context.WithCancel(context.Background())
	defer cancel()
	ch := make(chan ans, 3)
	specs := solvers(timeoutS)
	var wg sync.WaitGroup
	for _, sp := range specs {
		wg.Add(1)
		go func(sp solverSpec) {
			defer wg.Done()
			start := time.Now()
			args := append([]string{}, sp.args[1:]...)
			if seed != 0 && strings.HasPrefix(sp.name, "z3") {
				args = append(args, fmt.Sprintf("smt.random_seed=%d", seed), fmt.Sprintf("sat.random_seed=%d", seed))
			}
			if seed != 0 && sp.name == "cvc5" {
				args = append(args, fmt.Sprintf("--seed=%d", seed))
			}
			args = append(args, path)
			cctx, ccancel := context.WithTimeout(ctx, time.Duration(timeoutS+2)*time.Second)
			defer ccancel()
			cmd := exec.CommandContext(cctx, sp.args[0], args...)
			var buf bytes.Buffer
			cmd.Stdout = &buf
			cmd.Stderr = &buf
			_ = cmd.Run()
			out := buf.String()
			first := strings.TrimSpace(strings.SplitN(out, "\n", 2)[0])
			res := "unknown"
			switch {
			case first == "unsat" || first == "sat":
				res = first
			case strings.Contains(first, "timeout") || cctx.Err() != nil:
				res = "timeout"
			case first == "unknown":
				res = "unknown"
			default:
				res = "error"
			}
			ch <- ans{sp.name, res, out, time.Since(start).Milliseconds()}
		}(sp)
	}
	go func() { wg.Wait(); close(ch) }()
	perSolver = map[string]string{}
	best := ans{res: "unknown"}
	for a := range ch {
		perSolver[a.solver] = a.res
		if a.res == "unsat" || a.res == "sat" {
			if best.res != "unsat" && best.res != "sat" {
				best = a
				if !all {
					cancel()
				}
			} else if best.res != a.res {
				best = ans{solver: best.solver + "+" + a.solver, res: "disagree", out: best.out + "\n---\n" + a.out}
			}
		} else if best.res == "unknown" && a.res != "unknown" {
			if best.solver == "" {
				best = a
			}
		} else if best.solver == "" {
			best = a
		}
	}
	return best.res, best.solver, best.ms, best.out, perSolver
}

// parseValues parses a (get-value ...) answer: ((term value) ...)
func parseValues(out string) map[string]string {
	m := map[string]string{}
	i := strings.Index(out, "((")
	if i < 0 {
		return m
	}
	body := out[i:]
	// find the matching close of the outer list
	d := 0
	end := -1
	for k, c := range body {
		if c == '(' {
			d++
		} else if c == ')' {
			d--
			if d == 0 {
				end = k
				break
			}
		}
	}
	if end < 0 {
		return m
	}
	for _, pair := range splitSexp(body[:end+1]) {
		kv := splitSexp(pair)
		if len(kv) == 2 {
			m[kv[0]] = kv[1]
		}
	}
	return m
}

// instantiate translates the hypotheses in scope and the goal in three rounds of candidate collection.
// hybrid: flat quantifiers are left to the solver.
func (x *Exec) instantiate(ob *Obligation, hyps []qhyp, goalConjs []conj, replaced map[int]Term, hybrid bool) (lines []string, goal Term, cands *Cands) {
	cands = x.cands.cloneUpTo(ob.mark)
	rounds := 3
	if len(hyps) == 0 && (ob.expr == nil || !containsQuant(ob.expr, x.db)) {
		rounds = 1
	}
	sub := x.b.child()
	x.activeChild = sub
	defer func() { x.activeChild = nil }()
	prevSize := -1
	for round := 0; round < rounds; round++ {
		// further rounds while instantiation keeps producing new candidate terms (chains such as
		// appended element -> sorted element -> permutation source)
		if round == rounds-1 && rounds >= 3 && rounds < 6 && cands.size() > prevSize && prevSize >= 0 {
			rounds++
		}
		prevSize = cands.size()
		var facts []Term
		mkEnv := func(base *Env, assume bool, tag string) *Env {
			inst := 0
			n := *base
			n.sink = sub
			n.cands = cands
			n.assume = assume
			n.facts = &facts
			n.useCand = round > 0
			n.skTag = tag
			n.inst = &inst
			if hybrid {
				n.canonQ = true
				n.hybrid = true
				n.hybridAll = x.con != nil && x.con.Hybrid
			}
			return &n
		}
		var hs []Term
		for k, h := range hyps {
			t := mkEnv(h.env, true, fmt.Sprintf("h%d", k)).Bool(h.expr)
			hs = append(hs, Implies(h.guard, t))
		}
		if ob.expr != nil && len(replaced) > 0 {
			var parts []Term
			for i, c := range goalConjs {
				if g, hit := replaced[i]; hit {
					parts = append(parts, g)
					continue
				}
				parts = append(parts, mkEnv(c.env, false, fmt.Sprintf("g%d", i)).Bool(c.expr))
			}
			goal = Implies(ob.guard, And(parts...))
		} else if ob.expr != nil {
			g := mkEnv(ob.env, false, "g").Bool(ob.expr)
			goal = Implies(ob.guard, g)
		} else {
			goal = Implies(ob.guard, *ob.ground)
		}
		lines = append([]string{}, sub.lines...)
		seenFact := map[string]bool{}
		for _, f := range facts {
			if !seenFact[f.S] {
				seenFact[f.S] = true
				lines = append(lines, "(assert "+f.S+")")
			}
		}
		for _, h := range hs {
			if h.S != "true" {
				lines = append(lines, "(assert "+h.S+")")
			}
		}
	}
	return lines, goal, cands
}
