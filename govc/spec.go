package main

// Spec expression language: lexer and Pratt parser.

import (
	"fmt"
	"strings"
)

type ExprKind int

const (
	EIdent ExprKind = iota
	EInt
	EStr
	EBool
	ENil
	EUnary
	EBinary
	ECond
	ECall
	EField
	EIndex
	EQuant
	ESlice
)

type QVar struct {
	Name string
	Type string // Go type text
}

type Expr struct {
	Kind ExprKind
	Name string  // ident name, field name, call name, operator, quantifier kind
	Args []*Expr // operands
	Vars []QVar  // quantifier variables
	Trig []*Expr // optional trigger terms of a quantifier: forall x T {f(x), g(x)} :: body
	Pos  int
}

func (e *Expr) String() string {
	switch e.Kind {
	case EIdent, EInt, EBool:
		return e.Name
	case EStr:
		return fmt.Sprintf("%q", e.Name)
	case ENil:
		return "nil"
	case EUnary:
		return e.Name + e.Args[0].String()
	case EBinary:
		return "(" + e.Args[0].String() + " " + e.Name + " " + e.Args[1].String() + ")"
	case ECond:
		return "(" + e.Args[0].String() + " ? " + e.Args[1].String() + " : " + e.Args[2].String() + ")"
	case ECall:
		var xs []string
		for _, a := range e.Args {
			xs = append(xs, a.String())
		}
		return e.Name + "(" + strings.Join(xs, ", ") + ")"
	case EField:
		return e.Args[0].String() + "." + e.Name
	case EIndex:
		return e.Args[0].String() + "[" + e.Args[1].String() + "]"
	case ESlice:
		return e.Args[0].String() + "[" + e.Args[1].String() + ":" + e.Args[2].String() + "]"
	case EQuant:
		var xs []string
		for _, v := range e.Vars {
			xs = append(xs, v.Name+" "+v.Type)
		}
		return "(" + e.Name + " " + strings.Join(xs, ", ") + " :: " + e.Args[0].String() + ")"
	}
	return "?"
}

type stoken struct {
	kind string // "id", "int", "str", "op", "eof"
	text string
	pos  int
}

func lex(src string) ([]stoken, error) {
	var toks []stoken
	i := 0
	ops := []string{"<==>", "==>", "==", "!=", "<=", ">=", "<<", ">>", "&&", "||", "::", ":=",
		"(", ")", "[", "]", ",", ".", "?", ":", "+", "-", "*", "/", "%", "!", "<", ">", "{", "}"}
	for i < len(src) {
		c := src[i]
		switch {
		case c == ' ' || c == '\t' || c == '\n' || c == '\r':
			i++
		case c >= '0' && c <= '9':
			j := i
			for j < len(src) && (src[j] >= '0' && src[j] <= '9' || src[j] == 'x' || src[j] >= 'a' && src[j] <= 'f' || src[j] >= 'A' && src[j] <= 'F' || src[j] == '_') {
				j++
			}
			toks = append(toks, stoken{"int", strings.ReplaceAll(src[i:j], "_", ""), i})
			i = j
		case c == '_' || c >= 'a' && c <= 'z' || c >= 'A' && c <= 'Z' || c == '$':
			j := i
			for j < len(src) && (src[j] == '_' || src[j] == '$' || src[j] >= 'a' && src[j] <= 'z' || src[j] >= 'A' && src[j] <= 'Z' || src[j] >= '0' && src[j] <= '9') {
				j++
			}
			toks = append(toks, stoken{"id", src[i:j], i})
			i = j
		case c == '"':
			j := i + 1
			var sb strings.Builder
			for j < len(src) && src[j] != '"' {
				if src[j] == '\\' && j+1 < len(src) {
					j++
					switch src[j] {
					case 'n':
						sb.WriteByte('\n')
					case 't':
						sb.WriteByte('\t')
					default:
						sb.WriteByte(src[j])
					}
				} else {
					sb.WriteByte(src[j])
				}
				j++
			}
			if j >= len(src) {
				return nil, fmt.Errorf("unterminated string at %d", i)
			}
			toks = append(toks, stoken{"str", sb.String(), i})
			i = j + 1
		default:
			matched := false
			for _, op := range ops {
				if strings.HasPrefix(src[i:], op) {
					toks = append(toks, stoken{"op", op, i})
					i += len(op)
					matched = true
					break
				}
			}
			if !matched {
				return nil, fmt.Errorf("unexpected character %q at %d in %q", c, i, src)
			}
		}
	}
	toks = append(toks, stoken{"eof", "", len(src)})
	return toks, nil
}

type parser struct {
	toks []stoken
	p    int
	src  string
}

func ParseExpr(src string) (e *Expr, err error) {
	toks, err := lex(src)
	if err != nil {
		return nil, err
	}
	ps := &parser{toks: toks, src: src}
	defer func() {
		if r := recover(); r != nil {
			if pe, ok := r.(parseErr); ok {
				err = fmt.Errorf("%s in %q", string(pe), src)
				return
			}
			panic(r)
		}
	}()
	e = ps.expr(0)
	if ps.peek().kind != "eof" {
		ps.fail("unexpected %q", ps.peek().text)
	}
	return e, nil
}

type parseErr string

func (ps *parser) fail(format string, args ...interface{}) {
	panic(parseErr(fmt.Sprintf("parse error at %d: ", ps.peek().pos) + fmt.Sprintf(format, args...)))
}

func (ps *parser) peek() stoken { return ps.toks[ps.p] }
func (ps *parser) next() stoken { t := ps.toks[ps.p]; ps.p++; return t }
func (ps *parser) isOp(s string) bool {
	t := ps.peek()
	return t.kind == "op" && t.text == s
}
func (ps *parser) expect(s string) {
	if !ps.isOp(s) {
		ps.fail("expected %q, got %q", s, ps.peek().text)
	}
	ps.next()
}

// binding powers (left, right)
var binPow = map[string][2]int{
	"<==>": {1, 2},
	"==>":  {4, 3}, // right associative
	"?":    {5, 0},
	"||":   {7, 8},
	"&&":   {9, 10},
	"==":   {11, 12}, "!=": {11, 12}, "<": {11, 12}, "<=": {11, 12}, ">": {11, 12}, ">=": {11, 12}, "in": {11, 12},
	"+": {13, 14}, "-": {13, 14},
	"*": {15, 16}, "/": {15, 16}, "%": {15, 16}, "<<": {15, 16}, ">>": {15, 16},
}

func (ps *parser) expr(minBP int) *Expr {
	lhs := ps.unary()
	for {
		t := ps.peek()
		op := ""
		if t.kind == "op" {
			op = t.text
		} else if t.kind == "id" && t.text == "in" {
			op = "in"
		}
		bp, ok := binPow[op]
		if !ok || bp[0] < minBP {
			return lhs
		}
		ps.next()
		if op == "?" {
			a := ps.expr(0)
			ps.expect(":")
			b := ps.expr(5)
			lhs = &Expr{Kind: ECond, Args: []*Expr{lhs, a, b}, Pos: t.pos}
			continue
		}
		rhs := ps.expr(bp[1])
		lhs = &Expr{Kind: EBinary, Name: op, Args: []*Expr{lhs, rhs}, Pos: t.pos}
	}
}

func (ps *parser) unary() *Expr {
	t := ps.peek()
	if t.kind == "op" && (t.text == "!" || t.text == "-") {
		ps.next()
		x := ps.unary()
		return &Expr{Kind: EUnary, Name: t.text, Args: []*Expr{x}, Pos: t.pos}
	}
	return ps.postfix(ps.primary())
}

func (ps *parser) postfix(x *Expr) *Expr {
	for {
		switch {
		case ps.isOp("."):
			ps.next()
			t := ps.next()
			if t.kind != "id" {
				ps.fail("expected field name")
			}
			x = &Expr{Kind: EField, Name: t.text, Args: []*Expr{x}, Pos: t.pos}
		case ps.isOp("["):
			pos := ps.next().pos
			var lo *Expr
			if !ps.isOp(":") {
				lo = ps.expr(0)
			}
			if ps.isOp(":") {
				ps.next()
				var hi *Expr
				if !ps.isOp("]") {
					hi = ps.expr(0)
				}
				ps.expect("]")
				if lo == nil {
					lo = &Expr{Kind: EInt, Name: "0"}
				}
				if hi == nil {
					hi = &Expr{Kind: ECall, Name: "len", Args: []*Expr{x}}
				}
				x = &Expr{Kind: ESlice, Args: []*Expr{x, lo, hi}, Pos: pos}
				continue
			}
			ps.expect("]")
			x = &Expr{Kind: EIndex, Args: []*Expr{x, lo}, Pos: pos}
		case ps.isOp("(") && x.Kind == EIdent:
			ps.next()
			var args []*Expr
			for !ps.isOp(")") {
				args = append(args, ps.expr(0))
				if ps.isOp(",") {
					ps.next()
				} else {
					break
				}
			}
			ps.expect(")")
			x = &Expr{Kind: ECall, Name: x.Name, Args: args, Pos: x.Pos}
		default:
			return x
		}
	}
}

func (ps *parser) primary() *Expr {
	t := ps.next()
	switch t.kind {
	case "int":
		return &Expr{Kind: EInt, Name: t.text, Pos: t.pos}
	case "str":
		return &Expr{Kind: EStr, Name: t.text, Pos: t.pos}
	case "id":
		switch t.text {
		case "true", "false":
			return &Expr{Kind: EBool, Name: t.text, Pos: t.pos}
		case "nil":
			return &Expr{Kind: ENil, Pos: t.pos}
		case "forall", "exists":
			var vars []QVar
			for {
				n := ps.next()
				if n.kind != "id" {
					ps.fail("expected bound variable name")
				}
				// type text up to top-level ',' or '::'
				start := ps.peek().pos
				depth := 0
				for {
					q := ps.peek()
					if q.kind == "eof" {
						ps.fail("unterminated quantifier")
					}
					if depth == 0 && q.kind == "op" && (q.text == "," || q.text == "::" || q.text == "{") {
						break
					}
					if q.kind == "op" && (q.text == "[" || q.text == "(") {
						depth++
					}
					if q.kind == "op" && (q.text == "]" || q.text == ")") {
						depth--
					}
					ps.next()
				}
				typ := strings.TrimSpace(ps.src[start:ps.peek().pos])
				vars = append(vars, QVar{n.text, typ})
				if ps.isOp(",") {
					ps.next()
					continue
				}
				break
			}
			var trig []*Expr
			if ps.isOp("{") {
				ps.next()
				for {
					trig = append(trig, ps.expr(0))
					if ps.isOp(",") {
						ps.next()
						continue
					}
					break
				}
				ps.expect("}")
			}
			ps.expect("::")
			body := ps.expr(0)
			// variables sharing a type: "forall i, j int" gives i an empty type
			for i := len(vars) - 2; i >= 0; i-- {
				if vars[i].Type == "" {
					vars[i].Type = vars[i+1].Type
				}
			}
			return &Expr{Kind: EQuant, Name: t.text, Vars: vars, Trig: trig, Args: []*Expr{body}, Pos: t.pos}
		}
		return &Expr{Kind: EIdent, Name: t.text, Pos: t.pos}
	case "op":
		if t.text == "(" {
			e := ps.expr(0)
			ps.expect(")")
			return e
		}
	}
	ps.p--
	ps.fail("unexpected %q", t.text)
	return nil
}
