package main

import (
	"encoding/json"
	"fmt"
	"os"
	"path/filepath"
	"sort"
	"strings"
	"sync"
	"time"
)

type oblResult struct {
	Name      string            `json:"name"`
	Kind      string            `json:"kind"`
	Func      string            `json:"func"`
	Src       string            `json:"src,omitempty"`
	Pos       string            `json:"pos,omitempty"`
	Result    string            `json:"result"`
	Solver    string            `json:"solver"`
	Ms        int64             `json:"ms"`
	Size      int               `json:"script_bytes"`
	PerSolver map[string]string `json:"per_solver,omitempty"`
	model     map[string]string
	output    string
	q         *Query
	x         *Exec
}

func timeoutFor(tier string) int {
	if tier == "thorough" {
		return 60
	}
	return 10
}

func runAll(f *flags, w *propWork, dir string) []*oblResult {
	results := make([]*oblResult, len(w.obls))
	var wg sync.WaitGroup
	sem := make(chan struct{}, f.jobs)
	// translation of the obligations of one Exec is serialised (shared builder for on-demand
	// declarations); different Execs translate in parallel, and all solving is parallel.
	t0 := time.Now()
	var statMu sync.Mutex
	matched, light, fullN := 0, 0, 0
	for i, ob := range w.obls {
		x := w.oblExec[ob]
		r := &oblResult{Name: ob.Name, Kind: ob.Kind, Func: ob.Func, Src: ob.Src, Pos: ob.Pos, x: x}
		results[i] = r
		wg.Add(1)
		go func(r *oblResult, ob *Obligation, x *Exec) {
			defer wg.Done()
			sem <- struct{}{}
			defer func() { <-sem }()
			x.mu.Lock()
			q := x.translateObligation(ob)
			x.mu.Unlock()
			r.q = q
			statMu.Lock()
			matched += q.Matched
			if q.Light != "" {
				light++
			}
			statMu.Unlock()
			if q.Err != nil {
				r.Result = "engine-error"
				r.output = q.Err.Error()
				return
			}
			if q.Light != "" {
				lres, lsolver, lms, lout, lper := runSolvers(dir, r.Name+"_light", q.Light, 5, false, f.seed)
				if lres == "unsat" {
					r.Result, r.Solver, r.Ms, r.output, r.PerSolver = lres, lsolver, lms, lout, lper
					r.Size = len(q.Light)
					return
				}
			}
			// staged premise selection: most relevant hypotheses first (sound: fewer hypotheses)
			stages := []int{}
			if q.lazyInst && !q.Ob.mustSat {
				for _, k := range []int{6, 16} {
					if k < q.NHyps {
						stages = append(stages, k)
					}
				}
			}
			if (useHybrid || (x.con != nil && x.con.Hybrid)) && q.lazyInst && !q.Ob.mustSat {
				// solver-side quantifiers first (E-matching), all hypotheses
				// premise selection applies here as well: the most relevant hypotheses first
				for _, k := range []int{8, 20} {
					if k >= q.NHyps {
						continue
					}
					x.mu.Lock()
					q.fullK(k)
					x.mu.Unlock()
					if q.Err != nil || q.QScript == "" {
						break
					}
					sres, ssolver, sms, sout, sper := runSolvers(dir, fmt.Sprintf("%s_hyb_k%d", r.Name, k), q.QScript, 6, false, f.seed)
					if sres == "unsat" {
						r.Result, r.Solver, r.Ms, r.output, r.PerSolver = sres, fmt.Sprintf("%s/hybrid/k%d", ssolver, k), sms, sout, sper
						r.Size = len(q.QScript)
						return
					}
				}
				x.mu.Lock()
				q.fullK(0)
				x.mu.Unlock()
				if q.Err == nil && q.QScript != "" {
					hres, hsolver, hms, hout, hper := runSolvers(dir, r.Name+"_hyb", q.QScript, 10, false, f.seed)
					if hres == "unsat" || (x.con != nil && x.con.Hybrid) {
						// a contract that asks for solver-side quantifiers gets no generator-instantiated
						// fallback (its instances explode); an undischarged obligation stays undecided
						if hres != "unsat" && f.tier == "quick" {
							hres2, hsolver2, hms2, hout2, hper2 := runSolvers(dir, r.Name+"_hyb", q.QScript, 30, false, f.seed+7919)
							if hres2 == "unsat" {
								hres, hsolver, hms, hout, hper = hres2, hsolver2, hms+hms2, hout2, hper2
							}
						}
						r.Result, r.Solver, r.Ms, r.output, r.PerSolver = hres, hsolver+"/hybrid", hms, hout, hper
						r.Size = len(q.QScript)
						return
					}
				}
				q.noHybrid = true
			}
			for _, k := range stages {
				x.mu.Lock()
				q.fullK(k)
				x.mu.Unlock()
				if q.Err != nil {
					break
				}
				sres, ssolver, sms, sout, sper := runSolvers(dir, fmt.Sprintf("%s_k%d", r.Name, k), q.Script, 6, false, f.seed)
				if sres == "unsat" {
					r.Result, r.Solver, r.Ms, r.output, r.PerSolver = sres, fmt.Sprintf("%s/k%d", ssolver, k), sms, sout, sper
					r.Size = len(q.Script)
					return
				}
			}
			x.mu.Lock()
			q.full()
			x.mu.Unlock()
			statMu.Lock()
			fullN++
			statMu.Unlock()
			if q.Err != nil {
				r.Result = "engine-error"
				r.output = q.Err.Error()
				return
			}
			r.Size = q.SizeB
			res, solver, ms, out, per := runSolvers(dir, r.Name, q.Script, timeoutFor(f.tier), f.tier == "thorough", f.seed)
			if (res == "unknown" || res == "timeout") && f.tier == "quick" && !(q.Ob.mustSat && x.con != nil && x.con.Hybrid) {
				// one retry with another seed and a longer limit before giving up
				res2, solver2, ms2, out2, per2 := runSolvers(dir, r.Name, q.Script, 30, false, f.seed+7919)
				if res2 == "sat" || res2 == "unsat" {
					res, solver, ms, out, per = res2, solver2, ms+ms2, out2, per2
				}
			}
			r.Result, r.Solver, r.Ms, r.output, r.PerSolver = res, solver, ms, out, per
			if res == "sat" {
				r.model = parseValues(out)
				// prefer a small counterexample: bound the lengths of the input slices
				var lens []string
				for _, v := range q.Values {
					if strings.HasPrefix(v, "(sl_len ") {
						lens = append(lens, v)
					}
				}
				if len(lens) > 0 && !q.Ob.mustSat {
					for _, bound := range []int{2, 3, 4} {
						extra := ""
						for _, l := range lens {
							extra += fmt.Sprintf("(assert (<= %s %d))\n", l, bound)
						}
						small := strings.Replace(q.Script, "(check-sat)", extra+"(check-sat)", 1)
						res2, _, _, out2, _ := runSolvers(dir, r.Name+"_small", small, 10, false, f.seed)
						if res2 == "sat" {
							r.model = parseValues(out2)
							r.output = out2
							break
						}
					}
				}
			}
			if r.q.Ob.mustSat {
				switch res {
				case "sat":
					r.Result = "covered"
				case "unsat":
					r.Result = "vacuous"
				}
			}
		}(r, ob, x)
	}
	wg.Wait()
	if f.verbose {
		fmt.Printf("%d obligations in %.1fs: %d conjuncts matched syntactically, %d light scripts, %d full scripts built after a light attempt\n", len(w.obls), time.Since(t0).Seconds(), matched, light, fullN)
	}
	return results
}

func cmdSmt(args []string) int {
	f := parseFlags(args)
	w, err := collect(f, nil)
	if err != nil {
		fmt.Fprintln(os.Stderr, err)
		return 2
	}
	for _, e := range w.engineErrs {
		fmt.Fprintln(os.Stderr, "ENGINE:", e)
	}
	for _, ob := range w.obls {
		if f.ob == "" {
			fmt.Println(ob.Name)
			continue
		}
		if ob.Name == f.ob {
			q := w.oblExec[ob].translateObligation(ob)
			if q.full != nil {
				q.lazyInst = false
				q.full()
			}
			if q.Err != nil {
				fmt.Fprintln(os.Stderr, q.Err)
				return 2
			}
			if f.verbose {
				for _, h := range q.HypSrc {
					fmt.Fprintln(os.Stderr, "HYP", truncate(h, 260))
				}
			}
			switch f.tier {
			case "light":
				fmt.Println(q.Light)
			case "q":
				fmt.Println(q.QScript)
				if q.QErr != "" {
					fmt.Fprintln(os.Stderr, "qscript error:", q.QErr)
				}
			default:
				fmt.Println(q.Script)
			}
		}
	}
	return 0
}

type baseline struct {
	Props map[string][]string `json:"props"` // property -> sorted obligation names
}

func loadBaseline(verif string) *baseline {
	b := &baseline{Props: map[string][]string{}}
	data, err := os.ReadFile(filepath.Join(verif, "baseline", "obligations.json"))
	if err == nil {
		_ = json.Unmarshal(data, b)
	}
	return b
}

func cmdRebaseline(args []string) int {
	f := parseFlags(args)
	b := loadBaseline(f.verif)
	props := []string{f.prop}
	if f.prop == "" {
		props = nil
		for p := range b.Props {
			props = append(props, p)
		}
	}
	for _, p := range props {
		ff := *f
		ff.prop = p
		w, err := collect(&ff, nil)
		if err != nil {
			fmt.Fprintln(os.Stderr, err)
			return 2
		}
		if len(w.engineErrs) > 0 {
			for _, e := range w.engineErrs {
				fmt.Fprintln(os.Stderr, "ENGINE:", e)
			}
			return 2
		}
		var names []string
		for _, ob := range w.obls {
			names = append(names, ob.Name)
		}
		sort.Strings(names)
		b.Props[p] = names
		fmt.Printf("%s: %d obligations\n", p, len(names))
	}
	_ = os.MkdirAll(filepath.Join(f.verif, "baseline"), 0o755)
	data, _ := json.MarshalIndent(b, "", " ")
	if err := os.WriteFile(filepath.Join(f.verif, "baseline", "obligations.json"), append(data, '\n'), 0o644); err != nil {
		fmt.Fprintln(os.Stderr, err)
		return 2
	}
	return 0
}

func cmdCheck(args []string) int {
	f := parseFlags(args)
	if f.prop == "" {
		usage()
	}
	start := time.Now()
	w, err := collect(f, nil)
	if err != nil {
		fmt.Printf("UNDECIDED property=%s reason=%s\n", f.prop, strings.ReplaceAll(err.Error(), "\n", " | "))
		return 2
	}
	dir, _ := os.MkdirTemp("", "govc-"+f.prop+"-")
	if !f.keep {
		defer os.RemoveAll(dir)
	} else {
		fmt.Println("scripts in", dir)
	}
	results := runAll(f, w, dir)
	return report(f, w, results, time.Since(start))
}
