package main

// SMT term layer: terms are strings carrying a sort; shared subterms are named
// with define-fun so that scripts grow linearly with the size of the function.

import (
	"fmt"
	"sort"
	"strings"
)

type Sort string

const (
	SInt  Sort = "Int"
	SBool Sort = "Bool"
	SStr  Sort = "Str"
	SIfc  Sort = "Ifc"
	SF64  Sort = "F64"
)

type Term struct {
	S    string
	Sort Sort
}

func (t Term) String() string { return t.S }

func mk(sort Sort, format string, args ...interface{}) Term {
	return Term{fmt.Sprintf(format, args...), sort}
}

var (
	tTrue  = Term{"true", SBool}
	tFalse = Term{"false", SBool}
)

func IntLit(n int64) Term {
	if n < 0 {
		return Term{fmt.Sprintf("(- %d)", -n), SInt}
	}
	return Term{fmt.Sprintf("%d", n), SInt}
}

func IntLitStr(s string) Term {
	if strings.HasPrefix(s, "-") {
		return Term{"(- " + s[1:] + ")", SInt}
	}
	return Term{s, SInt}
}

func And(ts ...Term) Term {
	var xs []string
	for _, t := range ts {
		if t.S == "true" {
			continue
		}
		if t.S == "false" {
			return tFalse
		}
		xs = append(xs, t.S)
	}
	switch len(xs) {
	case 0:
		return tTrue
	case 1:
		return Term{xs[0], SBool}
	}
	return Term{"(and " + strings.Join(xs, " ") + ")", SBool}
}

func Or(ts ...Term) Term {
	var xs []string
	for _, t := range ts {
		if t.S == "false" {
			continue
		}
		if t.S == "true" {
			return tTrue
		}
		xs = append(xs, t.S)
	}
	switch len(xs) {
	case 0:
		return tFalse
	case 1:
		return Term{xs[0], SBool}
	}
	return Term{"(or " + strings.Join(xs, " ") + ")", SBool}
}

func Not(t Term) Term {
	switch t.S {
	case "true":
		return tFalse
	case "false":
		return tTrue
	}
	if strings.HasPrefix(t.S, "(not ") && balanced(t.S[5:len(t.S)-1]) {
		return Term{t.S[5 : len(t.S)-1], SBool}
	}
	return Term{"(not " + t.S + ")", SBool}
}

func balanced(s string) bool {
	d := 0
	for i, c := range s {
		switch c {
		case '(':
			d++
		case ')':
			d--
			if d < 0 {
				return false
			}
			if d == 0 && i != len(s)-1 {
				return false
			}
		case ' ':
			if d == 0 {
				return false
			}
		}
	}
	return d == 0
}

func Implies(a, b Term) Term {
	if a.S == "true" {
		return b
	}
	if a.S == "false" || b.S == "true" {
		return tTrue
	}
	return Term{"(=> " + a.S + " " + b.S + ")", SBool}
}

func Eq(a, b Term) Term {
	if a.S == b.S {
		return tTrue
	}
	return Term{"(= " + a.S + " " + b.S + ")", SBool}
}

func Ite(c, a, b Term) Term {
	if c.S == "true" {
		return a
	}
	if c.S == "false" {
		return b
	}
	if a.S == b.S {
		return a
	}
	return Term{"(ite " + c.S + " " + a.S + " " + b.S + ")", a.Sort}
}

func App(sort Sort, f string, args ...Term) Term {
	if len(args) == 0 {
		return Term{f, sort}
	}
	xs := make([]string, len(args))
	for i, a := range args {
		xs[i] = a.S
	}
	return Term{"(" + f + " " + strings.Join(xs, " ") + ")", sort}
}

func Select(arr, idx Term) Term {
	return Term{"(select " + arr.S + " " + idx.S + ")", arrayElem(arr.Sort)}
}

func StoreT(arr, idx, v Term) Term {
	return Term{"(store " + arr.S + " " + idx.S + " " + v.S + ")", arr.Sort}
}

func ArraySort(k, v Sort) Sort { return Sort("(Array " + string(k) + " " + string(v) + ")") }

// arrayElem returns the element sort of "(Array K V)".
func arrayElem(s Sort) Sort {
	parts := splitSexp(string(s))
	if len(parts) == 3 && parts[0] == "Array" {
		return Sort(parts[2])
	}
	panic("not an array sort: " + string(s))
}

func arrayKey(s Sort) Sort {
	parts := splitSexp(string(s))
	if len(parts) == 3 && parts[0] == "Array" {
		return Sort(parts[1])
	}
	panic("not an array sort: " + string(s))
}

// splitSexp splits "(a b (c d))" into ["a","b","(c d)"].
func splitSexp(s string) []string {
	s = strings.TrimSpace(s)
	if !strings.HasPrefix(s, "(") {
		return []string{s}
	}
	s = s[1 : len(s)-1]
	var out []string
	d := 0
	start := -1
	for i, c := range s {
		switch {
		case c == '(':
			if d == 0 && start < 0 {
				start = i
			}
			d++
		case c == ')':
			d--
			if d == 0 {
				out = append(out, s[start:i+1])
				start = -1
			}
		case c == ' ' || c == '\n' || c == '\t':
			if d == 0 && start >= 0 {
				out = append(out, s[start:i])
				start = -1
			}
		default:
			if start < 0 {
				start = i
			}
		}
	}
	if start >= 0 {
		out = append(out, s[start:])
	}
	return out
}

func SliceSort(elem Sort) Sort { return Sort("(Slice " + string(elem) + ")") }
func sliceElem(s Sort) Sort {
	parts := splitSexp(string(s))
	if len(parts) == 2 && parts[0] == "Slice" {
		return Sort(parts[1])
	}
	panic("not a slice sort: " + string(s))
}
func isSliceSort(s Sort) bool { return strings.HasPrefix(string(s), "(Slice ") }
func isMapSort(s Sort) bool   { return strings.HasPrefix(string(s), "(MapV ") }

func MapVSort(k, v Sort) Sort { return Sort("(MapV " + string(k) + " " + string(v) + ")") }
func mapVKV(s Sort) (Sort, Sort) {
	parts := splitSexp(string(s))
	if len(parts) == 3 && parts[0] == "MapV" {
		return Sort(parts[1]), Sort(parts[2])
	}
	panic("not a MapV sort: " + string(s))
}

func SlElems(s Term) Term { return Term{"(sl_elems " + s.S + ")", ArraySort(SInt, sliceElem(s.Sort))} }
func SlLen(s Term) Term   { return Term{"(sl_len " + s.S + ")", SInt} }
func MkSlice(elems, n Term) Term {
	return Term{"(mk_slice " + elems.S + " " + n.S + ")", SliceSort(arrayElem(elems.Sort))}
}
func MapHas(m Term) Term {
	k, _ := mapVKV(m.Sort)
	return Term{"(mp_has " + m.S + ")", ArraySort(k, SBool)}
}
func MapVal(m Term) Term {
	k, v := mapVKV(m.Sort)
	return Term{"(mp_val " + m.S + ")", ArraySort(k, v)}
}
func MapCard(m Term) Term { return Term{"(mp_card " + m.S + ")", SInt} }
func MkMapV(has, val, card Term) Term {
	return Term{"(mk_mapv " + has.S + " " + val.S + " " + card.S + ")", MapVSort(arrayKey(has.Sort), arrayElem(val.Sort))}
}

func IfcTag(i Term) Term { return Term{"(ifc_tag " + i.S + ")", SInt} }
func IfcRef(i Term) Term { return Term{"(ifc_ref " + i.S + ")", SInt} }
func MkIfc(tag, ref Term) Term {
	return Term{"(mk_ifc " + tag.S + " " + ref.S + ")", SIfc}
}

var nilIfc = Term{"(mk_ifc 0 0)", SIfc}

// ---------------------------------------------------------------------------

// Builder accumulates the declarations and definitions shared by all
// obligations of one function (or lemma).
type Builder struct {
	sortDecls  []string          // declare-sort / declare-datatypes in order
	sortSeen   map[string]bool   //
	funDecls   []string          // declare-fun / declare-const (globals: heaps, uninterpreted functions)
	funSeen    map[string]bool   //
	lines      []string          // ordered body: declare-const / define-fun / assert
	n          int               // fresh counter
	consts     map[string]Sort   // every declared constant (for model extraction)
	inputs     []string          // names worth printing from a model
	strLits    map[string]string // string literal -> const name
	strLitList []string
	memo       map[string]Term // hash-consing of shared subterms (Share)
	prefix     string
	defs       map[string]string // define-fun name -> body (for symbol extraction)
}

// Share names a (ground) term once per builder, so that repeated subterms are emitted once.
func (b *Builder) Share(t Term) Term {
	if len(t.S) < 48 {
		return t
	}
	if b.memo == nil {
		b.memo = map[string]Term{}
	}
	if n, ok := b.memo[t.S]; ok {
		return n
	}
	hint := "s"
	if strings.Contains(t.S, "sk_h") || strings.Contains(t.S, "g1_") {
		hint = "g1_s" // mentions a hypothesis skolem: generation 1 (see quant instantiation limits)
	}
	n := b.Def(b.prefix+hint, t)
	b.memo[t.S] = n
	return n
}

func NewBuilder() *Builder {
	return &Builder{sortSeen: map[string]bool{}, funSeen: map[string]bool{}, consts: map[string]Sort{}, strLits: map[string]string{}}
}

func (b *Builder) DeclSort(key, decl string) {
	if b.sortSeen[key] {
		return
	}
	b.sortSeen[key] = true
	b.sortDecls = append(b.sortDecls, decl)
}

func (b *Builder) DeclFun(name string, args []Sort, ret Sort) {
	if b.funSeen[name] {
		return
	}
	b.funSeen[name] = true
	as := make([]string, len(args))
	for i, a := range args {
		as[i] = string(a)
	}
	b.funDecls = append(b.funDecls, fmt.Sprintf("(declare-fun %s (%s) %s)", name, strings.Join(as, " "), ret))
}

func sanitize(s string) string {
	var sb strings.Builder
	for _, c := range s {
		switch {
		case c >= 'a' && c <= 'z', c >= 'A' && c <= 'Z', c >= '0' && c <= '9', c == '_':
			sb.WriteRune(c)
		default:
			sb.WriteRune('_')
		}
	}
	return sb.String()
}

// Fresh declares a new constant.
func (b *Builder) Fresh(hint string, sort Sort) Term {
	b.n++
	name := fmt.Sprintf("%s!%d", sanitize(hint), b.n)
	b.lines = append(b.lines, fmt.Sprintf("(declare-const %s %s)", name, sort))
	b.consts[name] = sort
	return Term{name, sort}
}

// Def names a term (define-fun) when it is not atomic.
func (b *Builder) Def(hint string, t Term) Term {
	if !strings.ContainsAny(t.S, " (") {
		return t
	}
	b.n++
	name := fmt.Sprintf("%s!%d", sanitize(hint), b.n)
	b.lines = append(b.lines, fmt.Sprintf("(define-fun %s () %s %s)", name, t.Sort, t.S))
	if b.defs == nil {
		b.defs = map[string]string{}
	}
	b.defs[name] = t.S
	return Term{name, t.Sort}
}

func (b *Builder) Assert(t Term) {
	if t.S == "true" {
		return
	}
	b.lines = append(b.lines, "(assert "+t.S+")")
}

func (b *Builder) Comment(s string) {
	b.lines = append(b.lines, "; "+strings.ReplaceAll(s, "\n", " "))
}

// Mark returns the current position in the body; an obligation emitted at a
// mark sees exactly the lines before it.
func (b *Builder) Mark() int { return len(b.lines) }

// StrLit returns the constant for a string literal; all literals are pairwise
// distinct and have known length (asserted in the prelude).
func (b *Builder) StrLit(s string) Term {
	if s == "" {
		return Term{"str_empty", SStr}
	}
	if n, ok := b.strLits[s]; ok {
		return Term{n, SStr}
	}
	name := fmt.Sprintf("strlit_%d_%s", len(b.strLits), sanitize(truncate(s, 16)))
	b.strLits[s] = name
	b.strLitList = append(b.strLitList, s)
	return Term{name, SStr}
}

func truncate(s string, n int) string {
	if len(s) > n {
		return s[:n]
	}
	return s
}

const preludeFixed = `(set-option :produce-models true)
(declare-sort Str 0)
(declare-sort F64 0)
(declare-datatypes ((Slice 1)) ((par (T) ((mk_slice (sl_elems (Array Int T)) (sl_len Int))))))
(declare-datatypes ((MapV 2)) ((par (K V) ((mk_mapv (mp_has (Array K Bool)) (mp_val (Array K V)) (mp_card Int))))))
(declare-datatypes ((Ifc 0)) (((mk_ifc (ifc_tag Int) (ifc_ref Int)))))
(declare-fun str_len (Str) Int)
(declare-const str_empty Str)
(declare-const bytes_nil Str)
(assert (= (str_len str_empty) 0))
(assert (= (str_len bytes_nil) 0))
(assert (distinct str_empty bytes_nil))
(declare-fun str_concat (Str Str) Str)
(declare-fun str_prefix (Str Str) Bool)
(declare-fun str_byte (Str Int) Int)
(declare-fun str_drop (Str Int) Str)
(declare-fun str_take (Str Int) Str)
(define-fun imin ((a Int) (b Int)) Int (ite (<= a b) a b))
(define-fun imax ((a Int) (b Int)) Int (ite (>= a b) a b))
`

// Script renders a complete SMT-LIB script for one goal using the body up to
// mark, plus extra hypothesis lines.
func (b *Builder) Script(mark int, extra []string, goal Term, getValues []string) string {
	var sb strings.Builder
	sb.WriteString(preludeFixed)
	for _, l := range b.sortDecls {
		sb.WriteString(l)
		sb.WriteByte('\n')
	}
	// string literals
	for _, s := range b.strLitList {
		n := b.strLits[s]
		fmt.Fprintf(&sb, "(declare-const %s Str)\n(assert (= (str_len %s) %d))\n", n, n, len(s))
	}
	if len(b.strLitList) > 0 {
		names := []string{"str_empty", "bytes_nil"}
		for _, s := range b.strLitList {
			names = append(names, b.strLits[s])
		}
		fmt.Fprintf(&sb, "(assert (distinct %s))\n", strings.Join(names, " "))
		// prefix facts among literals (ground, decidable here)
		for _, s := range b.strLitList {
			for _, p := range b.strLitList {
				if strings.HasPrefix(s, p) {
					fmt.Fprintf(&sb, "(assert (str_prefix %s %s))\n", b.strLits[s], b.strLits[p])
				} else {
					fmt.Fprintf(&sb, "(assert (not (str_prefix %s %s)))\n", b.strLits[s], b.strLits[p])
				}
			}
		}
	}
	for _, l := range b.funDecls {
		sb.WriteString(l)
		sb.WriteByte('\n')
	}
	for _, l := range b.lines[:mark] {
		sb.WriteString(l)
		sb.WriteByte('\n')
	}
	for _, l := range extra {
		sb.WriteString(l)
		sb.WriteByte('\n')
	}
	sb.WriteString("(assert (not " + goal.S + "))\n")
	sb.WriteString("(check-sat)\n")
	if len(getValues) > 0 {
		sb.WriteString("(get-value (" + strings.Join(getValues, " ") + "))\n")
	}
	return sb.String()
}

func sortedKeys(m map[string]bool) []string {
	var ks []string
	for k := range m {
		ks = append(ks, k)
	}
	sort.Strings(ks)
	return ks
}
