package main

import (
	"fmt"
	"go/token"
	"go/types"
	"os"
	"strings"
	"sync"

	"golang.org/x/tools/go/packages"
	"golang.org/x/tools/go/ssa"
	"golang.org/x/tools/go/ssa/ssautil"
)

type Loader struct {
	repo      string
	prog      *ssa.Program
	pkgs      []*packages.Package
	spkgs     map[string]*ssa.Package
	funcs     map[string]*ssa.Function // relKey -> function
	typeCache map[string]types.Type
	wrapperPkg map[*ssa.Function]*ssa.Package
	mu        sync.Mutex
	overlay   map[string][]byte
}

func goEnv() []string {
	env := os.Environ()
	return append(env, "GOFLAGS=-mod=mod", "GOPROXY=off", "GOSUMDB=off", "GOTOOLCHAIN=local")
}

// Load type-checks the given package patterns of the repository (from the working tree, with the
// verif tag) and builds SSA (NaiveForm) for them.
func Load(repo string, patterns []string, overlay map[string][]byte) (*Loader, error) {
	cfg := &packages.Config{
		Mode:       packages.LoadSyntax,
		Dir:        repo,
		BuildFlags: []string{"-tags=verif"},
		Env:        goEnv(),
		Overlay:    overlay,
	}
	pkgs, err := packages.Load(cfg, patterns...)
	if err != nil {
		return nil, err
	}
	var errs []string
	for _, p := range pkgs {
		for _, e := range p.Errors {
			errs = append(errs, e.Error())
		}
	}
	if len(errs) > 0 {
		return nil, fmt.Errorf("package errors:\n%s", strings.Join(errs, "\n"))
	}
	prog, spkgs := ssautil.Packages(pkgs, ssa.NaiveForm)
	ld := &Loader{repo: repo, prog: prog, pkgs: pkgs, spkgs: map[string]*ssa.Package{}, funcs: map[string]*ssa.Function{}, typeCache: map[string]types.Type{}, overlay: overlay, wrapperPkg: map[*ssa.Function]*ssa.Package{}}
	for _, sp := range spkgs {
		if sp == nil {
			continue
		}
		sp.Build()
		ld.spkgs[sp.Pkg.Path()] = sp
	}
	for fn := range ssautil.AllFunctions(prog) {
		if fn.Pkg == nil || ld.spkgs[fn.Pkg.Pkg.Path()] == nil {
			continue
		}
		if fn.Synthetic != "" && !strings.HasPrefix(fn.Synthetic, "wrapper for") {
			continue // promoted-method wrappers can be put under contract (what T inherits must satisfy T's contract)
		}
		ld.funcs[relKey(fn)] = fn
	}
	// promoted methods: the wrapper that T inherits from an embedded field can be put under contract
	for _, sp := range ld.spkgs {
		for _, m := range sp.Members {
			t, ok := m.(*ssa.Type)
			if !ok {
				continue
			}
			if _, isStruct := t.Type().Underlying().(*types.Struct); !isStruct {
				continue
			}
			for _, recv := range []types.Type{t.Type(), types.NewPointer(t.Type())} {
				ms := prog.MethodSets.MethodSet(recv)
				for k := 0; k < ms.Len(); k++ {
					sel := ms.At(k)
					if len(sel.Index()) <= 1 {
						continue // declared directly on T
					}
					fn := prog.MethodValue(sel)
					if fn == nil || !strings.HasPrefix(fn.Synthetic, "wrapper for") {
						continue
					}
					key := sp.Pkg.Path() + "::" + fn.RelString(sp.Pkg)
					if _, exists := ld.funcs[key]; !exists {
						ld.funcs[key] = fn
						ld.wrapperPkg[fn] = sp
					}
				}
			}
		}
	}
	return ld, nil
}

// evalType resolves a Go type expression in the scope of a package: for packages loaded with
// syntax, in the scope of one of its files (so that the file's imports are visible); for
// dependencies known from export data, in the package scope.
func (ld *Loader) evalType(pkgPath string, text string) types.Type {
	var pkg *packages.Package
	seen := map[string]bool{}
	var find func(ps map[string]*packages.Package)
	for _, p := range ld.pkgs {
		if p.PkgPath == pkgPath {
			pkg = p
		}
	}
	if pkg == nil {
		find = func(ps map[string]*packages.Package) {
			for path, p := range ps {
				if seen[path] || pkg != nil {
					continue
				}
				seen[path] = true
				if path == pkgPath {
					pkg = p
					return
				}
				find(p.Imports)
			}
		}
		for _, p := range ld.pkgs {
			find(p.Imports)
		}
	}
	if pkg == nil || pkg.Types == nil {
		return nil
	}
	fset := pkg.Fset
	if fset == nil {
		fset = ld.prog.Fset
	}
	if tv, err := types.Eval(fset, pkg.Types, token.NoPos, text); err == nil && tv.IsType() {
		return tv.Type
	}
	for _, f := range pkg.Syntax {
		pos := f.End() - 1
		if len(f.Decls) > 0 {
			pos = f.Decls[len(f.Decls)-1].Pos()
		}
		if tv, err := types.Eval(fset, pkg.Types, pos, text); err == nil && tv.IsType() {
			return tv.Type
		}
	}
	// imp.name with an unexported name (types.Eval refuses it): look the name up in the imported package
	if i := strings.Index(text, "."); i > 0 && !strings.ContainsAny(text, "[]*( ") {
		for _, ip := range pkg.Imports {
			if ip.Types != nil && ip.Types.Name() == text[:i] {
				if tn, ok := ip.Types.Scope().Lookup(text[i+1:]).(*types.TypeName); ok {
					return tn.Type()
				}
			}
		}
	}
	return nil
}

// isInterfaceMethodKey: "pkgpath::(Iface).Method" where Iface is an interface type of a loaded package.
func (ld *Loader) isInterfaceMethodKey(k string) bool {
	i := strings.Index(k, "::(")
	j := strings.Index(k, ").")
	if i < 0 || j < i {
		return false
	}
	t := ld.evalType(k[:i], k[i+3:j])
	if t == nil {
		return false
	}
	it, ok := t.Underlying().(*types.Interface)
	if !ok {
		return false
	}
	for m := 0; m < it.NumMethods(); m++ {
		if it.Method(m).Name() == k[j+2:] {
			return true
		}
	}
	return false
}
