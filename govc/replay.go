package main

// Counterexample replay: build the inputs of the real function from the solver's model, run the
// real function through `go test -overlay` (nothing is written into /repo), dump pre/post state
// by reflection, and evaluate the violated contract clause on the concrete values.

import (
	"encoding/json"
	"fmt"
	"go/types"
	"math/big"
	"os"
	"os/exec"
	"path/filepath"
	"sort"
	"strings"

	"golang.org/x/tools/go/ssa"
)

// inputTerms lists the ground terms whose model values describe the inputs of fn.
func (x *Exec) inputTerms() []string {
	if x.fn == nil {
		return nil
	}
	var out []string
	seen := map[string]bool{}
	add := func(s string) {
		if !seen[s] {
			seen[s] = true
			out = append(out, s)
		}
	}
	add("str_empty")
	add("bytes_nil")
	var strTerms []string
	type mapRef struct {
		term string
		mt   *types.Map
	}
	var maps []mapRef
	var walk func(t types.Type, term string, depth int)
	walk = func(t types.Type, term string, depth int) {
		t = types.Unalias(t)
		switch u := t.Underlying().(type) {
		case *types.Map:
			add(term)
			if x.tm.SortOf(u.Key()) == SStr && x.tm.SortOf(u.Elem()) == SStr {
				maps = append(maps, mapRef{term, u})
			}
		case *types.Basic:
			add(term)
			if u.Info()&types.IsString != 0 {
				add("(str_len " + term + ")")
				strTerms = append(strTerms, term)
			}
		case *types.Pointer:
			add(term)
			if depth >= 3 {
				return
			}
			if n, s := namedStruct(u.Elem()); s != nil && n != nil {
				for i := 0; i < s.NumFields(); i++ {
					hn := x.fieldHeapName(n, s.Field(i))
					if h, ok := x.initHeaps[hn]; ok {
						walk(s.Field(i).Type(), "(select "+h.S+" "+term+")", depth+1)
					}
				}
			} else if h, ok := x.initHeaps[x.cellHeapName(u.Elem())]; ok {
				walk(u.Elem(), "(select "+h.S+" "+term+")", depth+1)
			}
		case *types.Slice:
			if isByteSlice(t) {
				add(term)
				add("(str_len " + term + ")")
				return
			}
			add("(sl_len " + term + ")")
			if depth >= 3 {
				return
			}
			for i := 0; i < 4; i++ {
				walk(u.Elem(), fmt.Sprintf("(select (sl_elems %s) %d)", term, i), depth+1)
			}
		case *types.Struct:
			for i := 0; i < u.NumFields(); i++ {
				walk(u.Field(i).Type(), x.tm.StructField(Term{term, x.tm.SortOf(t)}, t, i).S, depth+1)
			}
		case *types.Interface:
			add("(ifc_tag " + term + ")")
		case *types.Signature:
			add(term)
		}
	}
	for _, p := range x.fn.Params {
		walk(p.Type(), "p_"+sanitize(p.Name()), 0)
	}
	x.replayStrTerms = strTerms
	for _, m := range maps {
		h, ok := x.initHeaps[x.mapHeapName(m.mt)]
		if !ok {
			continue
		}
		mv := "(select " + h.S + " " + m.term + ")"
		for _, k := range strTerms {
			add("(select (mp_has " + mv + ") " + k + ")")
			add("(select (mp_val " + mv + ") " + k + ")")
			add("(str_len (select (mp_val " + mv + ") " + k + "))")
		}
	}
	for _, in := range x.b.inputs {
		add(in)
		if x.b.consts[in] == SIfc {
			add("(ifc_tag " + in + ")")
		}
	}
	return out
}

type genCtx struct {
	x       *Exec
	model   map[string]string
	decls   []string
	refVar  map[string]string // ref value -> variable name
	n       int
	imports map[string]string // path -> name
	ok      bool
	why     string
	strVals map[string]string
}

func (g *genCtx) fail(why string) string {
	g.ok = false
	if g.why == "" {
		g.why = why
	}
	return "nil"
}

func modelInt(v string) (*big.Int, bool) {
	v = strings.TrimSpace(v)
	neg := false
	if strings.HasPrefix(v, "(- ") && strings.HasSuffix(v, ")") {
		neg = true
		v = strings.TrimSpace(v[3 : len(v)-1])
	}
	n, ok := new(big.Int).SetString(v, 10)
	if !ok {
		return nil, false
	}
	if neg {
		n.Neg(n)
	}
	return n, true
}

func (g *genCtx) typeStr(t types.Type) string {
	return types.TypeString(t, func(p *types.Package) string {
		if p.Path() == g.x.pkg.Pkg.Path() {
			return ""
		}
		name := p.Name()
		if old, ok := g.imports[p.Path()]; ok {
			return old
		}
		// avoid clashes
		for _, n := range g.imports {
			if n == name {
				name = name + fmt.Sprint(len(g.imports))
			}
		}
		g.imports[p.Path()] = name
		return name
	})
}

// strOfLen makes a distinct printable string of the given length for an abstract Str value.
func (g *genCtx) strFor(abs string, n int64) string {
	if s, ok := g.strVals[abs]; ok {
		return s
	}
	if abs != "" && (abs == g.model["str_empty"] || abs == g.model["bytes_nil"]) {
		return ""
	}
	id := len(g.strVals)
	var s string
	if n <= 0 {
		s = ""
	} else {
		base := fmt.Sprintf("%c%d", 'a'+rune(id%26), id)
		for int64(len(s)) < n {
			s += base
		}
		s = s[:n]
	}
	g.strVals[abs] = s
	return s
}

// expr builds a Go expression of type t whose value matches the model of term.
func (g *genCtx) expr(t types.Type, term string, depth int) string {
	t0 := t
	t = types.Unalias(t)
	val, has := g.model[term]
	switch u := t.Underlying().(type) {
	case *types.Basic:
		switch {
		case u.Info()&types.IsBoolean != 0:
			if !has {
				return "false"
			}
			return val
		case u.Info()&types.IsInteger != 0:
			if !has {
				return g.typeStr(t0) + "(0)"
			}
			n, ok := modelInt(val)
			if !ok {
				return g.fail("non-numeral model value " + val)
			}
			return fmt.Sprintf("%s(%s)", g.typeStr(t0), n.String())
		case u.Info()&types.IsString != 0:
			ln := int64(0)
			if lv, ok := g.model["(str_len "+term+")"]; ok {
				if n, ok2 := modelInt(lv); ok2 && n.IsInt64() && n.Int64() < 1<<16 {
					ln = n.Int64()
				} else {
					return g.fail("string too long in model")
				}
			}
			if !has {
				val = term
			}
			return fmt.Sprintf("%s(%q)", g.typeStr(t0), g.strFor(val, ln))
		}
		return g.fail("basic type " + t.String())
	case *types.Pointer:
		if !has {
			return "nil"
		}
		n, ok := modelInt(val)
		if !ok {
			return g.fail("pointer model value " + val)
		}
		if n.Sign() == 0 {
			return "nil"
		}
		if v, ok := g.refVar[n.String()+"|"+t.String()]; ok {
			return v
		}
		if depth > 3 {
			return "nil"
		}
		g.n++
		name := fmt.Sprintf("o%d", g.n)
		g.refVar[n.String()+"|"+t.String()] = name
		if nm, s := namedStruct(u.Elem()); s != nil && nm != nil {
			g.decls = append(g.decls, fmt.Sprintf("%s := new(%s)", name, g.typeStr(u.Elem())))
			for i := 0; i < s.NumFields(); i++ {
				f := s.Field(i)
				if f.Name() == "_" {
					continue
				}
				hn := g.x.fieldHeapName(nm, f)
				h, ok := g.x.initHeaps[hn]
				if !ok {
					continue
				}
				ft := "(select " + h.S + " " + term + ")"
				switch f.Type().Underlying().(type) {
				case *types.Struct, *types.Interface, *types.Chan, *types.Signature:
					continue
				}
				e := g.expr(f.Type(), ft, depth+1)
				g.decls = append(g.decls, fmt.Sprintf("%s.%s = %s", name, f.Name(), e))
			}
			return name
		}
		g.decls = append(g.decls, fmt.Sprintf("%s := new(%s)", name, g.typeStr(u.Elem())))
		if h, ok := g.x.initHeaps[g.x.cellHeapName(u.Elem())]; ok {
			e := g.expr(u.Elem(), "(select "+h.S+" "+term+")", depth+1)
			g.decls = append(g.decls, fmt.Sprintf("*%s = %s", name, e))
		}
		return name
	case *types.Slice:
		if isByteSlice(t) {
			ln := int64(0)
			if lv, ok := g.model["(str_len "+term+")"]; ok {
				if n, ok2 := modelInt(lv); ok2 && n.IsInt64() && n.Int64() < 1<<16 {
					ln = n.Int64()
				}
			}
			if has && val == "bytes_nil" {
				return "nil"
			}
			if !has {
				val = term
			}
			return fmt.Sprintf("%s(%q)", g.typeStr(t0), g.strFor(val, ln))
		}
		lv, ok := g.model["(sl_len "+term+")"]
		if !ok {
			return "nil"
		}
		n, ok2 := modelInt(lv)
		if !ok2 || !n.IsInt64() || n.Int64() > 4 {
			return g.fail("slice longer than the replayed prefix")
		}
		var elems []string
		for i := int64(0); i < n.Int64(); i++ {
			elems = append(elems, g.expr(u.Elem(), fmt.Sprintf("(select (sl_elems %s) %d)", term, i), depth+1))
		}
		return fmt.Sprintf("%s{%s}", g.typeStr(t0), strings.Join(elems, ", "))
	case *types.Struct:
		var fs []string
		for i := 0; i < u.NumFields(); i++ {
			ft := g.x.tm.StructField(Term{term, g.x.tm.SortOf(t)}, t, i).S
			fs = append(fs, fmt.Sprintf("%s: %s", u.Field(i).Name(), g.expr(u.Field(i).Type(), ft, depth+1)))
		}
		return fmt.Sprintf("%s{%s}", g.typeStr(t0), strings.Join(fs, ", "))
	case *types.Interface:
		tag, ok := g.model["(ifc_tag "+term+")"]
		if !ok || tag == "0" {
			return "nil"
		}
		if types.Identical(t, types.Universe.Lookup("error").Type()) {
			g.imports["errors"] = "errors"
			return `errors.New("replay error")`
		}
		return g.fail("non-nil interface input")
	case *types.Signature:
		return g.fail("function-typed input")
	case *types.Map:
		if g.x.tm.SortOf(u.Key()) != SStr || g.x.tm.SortOf(u.Elem()) != SStr {
			return g.fail("map-typed input")
		}
		if !has || val == "0" {
			return "nil"
		}
		h, ok := g.x.initHeaps[g.x.mapHeapName(u)]
		if !ok {
			return g.typeStr(t0) + "{}"
		}
		mv := "(select " + h.S + " " + term + ")"
		var entries []string
		seenKey := map[string]bool{}
		for _, k := range g.x.replayStrTerms {
			if g.model["(select (mp_has "+mv+") "+k+")"] != "true" {
				continue
			}
			kabs, ok := g.model[k]
			if !ok || seenKey[kabs] {
				continue
			}
			seenKey[kabs] = true
			kl := int64(0)
			if n, ok := modelInt(g.model["(str_len "+k+")"]); ok && n.IsInt64() {
				kl = n.Int64()
			}
			vt := "(select (mp_val " + mv + ") " + k + ")"
			vabs := g.model[vt]
			vl := int64(0)
			if n, ok := modelInt(g.model["(str_len "+vt+")"]); ok && n.IsInt64() {
				vl = n.Int64()
			}
			if kl > 1<<12 || vl > 1<<12 {
				return g.fail("map entry too long in model")
			}
			if vabs == g.model["bytes_nil"] {
				entries = append(entries, fmt.Sprintf("%q: nil", g.strFor(kabs, kl)))
			} else {
				entries = append(entries, fmt.Sprintf("%q: []byte(%q)", g.strFor(kabs, kl), g.strFor(vabs, vl)))
			}
		}
		return fmt.Sprintf("%s{%s}", g.typeStr(t0), strings.Join(entries, ", "))
	}
	return g.fail("input type " + t.String())
}

const dumperSrc = `
func govcDump(v interface{}) interface{} { return govcDumpV(reflect.ValueOf(v), 0, map[uintptr]bool{}) }

func govcDumpV(v reflect.Value, depth int, seen map[uintptr]bool) interface{} {
	if !v.IsValid() {
		return nil
	}
	if depth > 5 {
		return "<deep>"
	}
	switch v.Kind() {
	case reflect.Bool:
		return v.Bool()
	case reflect.Int, reflect.Int8, reflect.Int16, reflect.Int32, reflect.Int64:
		return fmt.Sprint(v.Int())
	case reflect.Uint, reflect.Uint8, reflect.Uint16, reflect.Uint32, reflect.Uint64, reflect.Uintptr:
		return fmt.Sprint(v.Uint())
	case reflect.Float32, reflect.Float64:
		return map[string]interface{}{"$float": fmt.Sprint(v.Float())}
	case reflect.String:
		return map[string]interface{}{"$str": v.String()}
	case reflect.Ptr:
		if v.IsNil() {
			return nil
		}
		p := v.Pointer()
		if seen[p] {
			return map[string]interface{}{"$ptr": fmt.Sprint(p), "$cycle": true}
		}
		seen[p] = true
		defer delete(seen, p)
		inner := govcDumpV(v.Elem(), depth+1, seen)
		if m, ok := inner.(map[string]interface{}); ok {
			m["$ptr"] = fmt.Sprint(p)
			return m
		}
		return map[string]interface{}{"$ptr": fmt.Sprint(p), "$val": inner}
	case reflect.Struct:
		m := map[string]interface{}{}
		for i := 0; i < v.NumField(); i++ {
			m[v.Type().Field(i).Name] = govcDumpV(v.Field(i), depth+1, seen)
		}
		return m
	case reflect.Slice:
		if v.Type().Elem().Kind() == reflect.Uint8 {
			if v.IsNil() {
				return map[string]interface{}{"$bytes": "", "$nil": true}
			}
			b := make([]byte, v.Len())
			for i := range b {
				b[i] = byte(v.Index(i).Uint())
			}
			return map[string]interface{}{"$bytes": string(b)}
		}
		out := []interface{}{}
		for i := 0; i < v.Len() && i < 64; i++ {
			out = append(out, govcDumpV(v.Index(i), depth+1, seen))
		}
		return map[string]interface{}{"$slice": out, "$len": v.Len()}
	case reflect.Array:
		out := []interface{}{}
		for i := 0; i < v.Len() && i < 64; i++ {
			out = append(out, govcDumpV(v.Index(i), depth+1, seen))
		}
		return map[string]interface{}{"$slice": out, "$len": v.Len()}
	case reflect.Map:
		if v.IsNil() {
			return map[string]interface{}{"$map": map[string]interface{}{}, "$nil": true}
		}
		m := map[string]interface{}{}
		it := v.MapRange()
		n := 0
		for it.Next() && n < 256 {
			m[fmt.Sprint(it.Key())] = govcDumpV(it.Value(), depth+1, seen)
			n++
		}
		return map[string]interface{}{"$map": m, "$len": v.Len()}
	case reflect.Interface:
		if v.IsNil() {
			return nil
		}
		return map[string]interface{}{"$iface": v.Elem().Type().String(), "$val": govcDumpV(v.Elem(), depth+1, seen)}
	case reflect.Func:
		if v.IsNil() {
			return nil
		}
		return "<func>"
	}
	return "<" + v.Kind().String() + ">"
}

func govcEmit(tag string, v interface{}) {
	b, err := json.Marshal(v)
	if err != nil {
		fmt.Printf("GOVC-%s-ERR %v\n", tag, err)
		return
	}
	fmt.Printf("GOVC-%s %s\n", tag, b)
}
`

// buildReplayTest returns the source of an in-package test that runs fn on the model's inputs.
func (x *Exec) buildReplayTest(model map[string]string) (src string, ok bool, why string) {
	fn := x.fn
	g := &genCtx{x: x, model: model, refVar: map[string]string{}, imports: map[string]string{}, ok: true, strVals: map[string]string{}}
	var args []string
	var names []string
	start := 0
	recv := ""
	if fn.Signature.Recv() != nil {
		start = 1
		recv = g.expr(fn.Params[0].Type(), "p_"+sanitize(fn.Params[0].Name()), 0)
		names = append(names, fn.Params[0].Name())
	}
	cbN := 0
	for _, p := range fn.Params[start:] {
		if sig, isFn := p.Type().Underlying().(*types.Signature); isFn {
			// callback: returns the model's values for its results (cb_* inputs, in call order)
			var rets []string
			for k := 0; k < sig.Results().Len(); k++ {
				rt := sig.Results().At(k).Type()
				term := sanitize(fmt.Sprintf("cb_%s_%d", p.Name(), k))
				cbN++
				rets = append(rets, g.expr(rt, term, 1))
			}
			args = append(args, fmt.Sprintf("func(%s) %s { return %s }", g.sigParams(sig), g.sigResults(sig), strings.Join(rets, ", ")))
			names = append(names, p.Name())
			continue
		}
		args = append(args, g.expr(p.Type(), "p_"+sanitize(p.Name()), 0))
		names = append(names, p.Name())
	}
	if !g.ok {
		return "", false, g.why
	}
	var sb strings.Builder
	fmt.Fprintf(&sb, "package %s\n\nimport (\n\t\"encoding/json\"\n\t\"fmt\"\n\t\"reflect\"\n\t\"testing\"\n", x.pkg.Pkg.Name())
	var imps []string
	for p := range g.imports {
		imps = append(imps, p)
	}
	sort.Strings(imps)
	for _, p := range imps {
		fmt.Fprintf(&sb, "\t%s %q\n", g.imports[p], p)
	}
	sb.WriteString(")\n\nvar _ = reflect.ValueOf\nvar _ = json.Marshal\n")
	sb.WriteString(dumperSrc)
	sb.WriteString("\nfunc TestGovcReplay(t *testing.T) {\n")
	for _, d := range g.decls {
		sb.WriteString("\t" + d + "\n")
	}
	// argument variables
	var argVars []string
	k := 0
	if recv != "" {
		fmt.Fprintf(&sb, "\ta0 := %s\n", recv)
		argVars = append(argVars, "a0")
		k = 1
	}
	for i, a := range args {
		fmt.Fprintf(&sb, "\ta%d := %s\n", i+k, a)
		argVars = append(argVars, fmt.Sprintf("a%d", i+k))
	}
	sb.WriteString("\tpre := map[string]interface{}{}\n")
	for i, n := range names {
		if _, isFn := fn.Params[i].Type().Underlying().(*types.Signature); isFn {
			continue
		}
		fmt.Fprintf(&sb, "\tpre[%q] = govcDump(%s)\n", n, argVars[i])
	}
	sb.WriteString("\tgovcEmit(\"PRE\", pre)\n")
	sb.WriteString("\tdefer func() {\n\t\tif r := recover(); r != nil {\n\t\t\tfmt.Printf(\"GOVC-PANIC %v\\n\", r)\n\t\t}\n\t}()\n")
	nres := fn.Signature.Results().Len()
	var resVars []string
	for i := 0; i < nres; i++ {
		resVars = append(resVars, fmt.Sprintf("r%d", i))
	}
	call := ""
	if recv != "" {
		call = fmt.Sprintf("a0.%s(%s)", fn.Name(), strings.Join(argVars[1:], ", "))
	} else {
		call = fmt.Sprintf("%s(%s)", fn.Name(), strings.Join(argVars, ", "))
	}
	if nres > 0 {
		fmt.Fprintf(&sb, "\t%s := %s\n", strings.Join(resVars, ", "), call)
	} else {
		fmt.Fprintf(&sb, "\t%s\n", call)
	}
	sb.WriteString("\tpost := map[string]interface{}{}\n")
	for i, n := range names {
		if _, isFn := fn.Params[i].Type().Underlying().(*types.Signature); isFn {
			continue
		}
		fmt.Fprintf(&sb, "\tpost[%q] = govcDump(%s)\n", n, argVars[i])
	}
	for i, r := range resVars {
		fmt.Fprintf(&sb, "\tpost[\"result%d\"] = govcDump(%s)\n", i, r)
	}
	sb.WriteString("\tgovcEmit(\"POST\", post)\n}\n")
	return sb.String(), true, ""
}

func (g *genCtx) sigParams(sig *types.Signature) string {
	var ps []string
	for i := 0; i < sig.Params().Len(); i++ {
		ps = append(ps, fmt.Sprintf("_ %s", g.typeStr(sig.Params().At(i).Type())))
	}
	return strings.Join(ps, ", ")
}

func (g *genCtx) sigResults(sig *types.Signature) string {
	var rs []string
	for i := 0; i < sig.Results().Len(); i++ {
		rs = append(rs, g.typeStr(sig.Results().At(i).Type()))
	}
	if len(rs) == 0 {
		return ""
	}
	return "(" + strings.Join(rs, ", ") + ")"
}

// runReplayTest injects src as an in-package test through -overlay and runs it.
func runReplayTest(repo, pkgPath, src string) (bool, string) {
	rel := strings.TrimPrefix(pkgPath, modulePath)
	rel = strings.TrimPrefix(rel, "/")
	dir, err := os.MkdirTemp("", "govc-replay-")
	if err != nil {
		return false, err.Error()
	}
	defer os.RemoveAll(dir)
	testFile := filepath.Join(dir, "zz_govc_replay_test.go")
	if err := os.WriteFile(testFile, []byte(src), 0o644); err != nil {
		return false, err.Error()
	}
	target := filepath.Join(repo, rel, "zz_govc_replay_test.go")
	ov, _ := json.Marshal(map[string]interface{}{"Replace": map[string]string{target: testFile}})
	ovFile := filepath.Join(dir, "overlay.json")
	_ = os.WriteFile(ovFile, ov, 0o644)
	cmd := exec.Command("go", "test", "-overlay", ovFile, "-vet=off", "-timeout", "60s", "-count=1", "-v", "-run", "^TestGovcReplay$", "./"+rel)
	cmd.Dir = repo
	cmd.Env = goEnv()
	out, _ := cmd.CombinedOutput()
	return strings.Contains(string(out), "GOVC-PRE"), string(out)
}

func tryReplay(f *flags, w *propWork, r *oblResult) (confirmed bool, output string, testSrc string) {
	x := r.x
	if x == nil || r.model == nil {
		return false, "no model", ""
	}
	if x.fn == nil {
		// lemma: evaluate the formula on the model directly is not possible without running code
		return false, "lemma: pure formula, no code to run (model attached)", ""
	}
	src, ok, why := x.buildReplayTest(r.model)
	if !ok {
		return false, "inputs not constructible from the model: " + why, ""
	}
	ran, out := runReplayTest(f.repo, x.pkg.Pkg.Path(), src)
	if !ran {
		return false, "replay test did not run:\n" + out, src
	}
	verdict, detail := x.judgeReplay(r, out)
	return verdict, detail + "\n" + out, src
}

// judgeReplay evaluates the violated obligation on the dumped concrete state.
func (x *Exec) judgeReplay(r *oblResult, out string) (bool, string) {
	var pre, post map[string]interface{}
	panicMsg := ""
	for _, l := range strings.Split(out, "\n") {
		switch {
		case strings.HasPrefix(l, "GOVC-PRE "):
			_ = json.Unmarshal([]byte(l[9:]), &pre)
		case strings.HasPrefix(l, "GOVC-POST "):
			_ = json.Unmarshal([]byte(l[10:]), &post)
		case strings.HasPrefix(l, "GOVC-PANIC "):
			panicMsg = l[11:]
		}
	}
	ob := r.q.Ob
	switch ob.Kind {
	case "nil", "bounds", "div0", "typeassert", "mapnilwrite", "panic", "nowrap":
		if panicMsg != "" {
			return true, "real function panicked on the model's input: " + panicMsg
		}
	}
	if panicMsg != "" {
		// a panic on an input satisfying the preconditions violates the contract of any function
		// without panics_if
		if len(x.con.PanicsIf) == 0 && x.preHolds(pre) {
			return true, "real function panicked on an input satisfying its preconditions: " + panicMsg
		}
		return false, "function panicked: " + panicMsg
	}
	if post == nil {
		return false, "no post-state dump"
	}
	if !x.preHolds(pre) {
		return false, "model input does not satisfy the preconditions when evaluated concretely (spurious model)"
	}
	// evaluate every postcondition of the function on the concrete run: any false one is a confirmed
	// failing input (for post obligations this includes the violated clause itself)
	for _, c := range x.con.Ensures {
		v, err := x.evalClause(c.Expr, pre, post)
		if err != nil {
			continue
		}
		if !v {
			return true, fmt.Sprintf("postcondition evaluates to false on the real run: %s", c.Src)
		}
	}
	return false, "all evaluable postconditions hold on the real run for this input"
}

func (x *Exec) preHolds(pre map[string]interface{}) bool {
	if pre == nil {
		return false
	}
	for _, c := range x.con.Requires {
		v, err := x.evalClause(c.Expr, pre, pre)
		if err == nil && !v {
			return false
		}
	}
	return true
}

var _ = ssa.NaiveForm
