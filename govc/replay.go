package main

func tryReplay(f *flags, w *propWork, r *oblResult) (confirmed bool, output string, testSrc string) {
	return false, "", ""
}

func runReplayTest(repo, pkgPath, src string) (bool, string) {
	return false, ""
}
