package main

// Calls: builtins, contracts (modular), inlining of small contract-less helpers,
// assumed contracts for external code.

import (
	"fmt"
	"go/constant"
	"go/token"
	"go/types"
	"strings"

	"golang.org/x/tools/go/ssa"
)

func (x *Exec) execCall(f *Frame, i *ssa.Call) {
	c := &i.Call
	if b, ok := c.Value.(*ssa.Builtin); ok {
		x.execBuiltin(f, i, b)
		x.afterCallAt(f, i)
		return
	}
	if c.IsInvoke() {
		x.execInvoke(f, i)
		x.afterCallAt(f, i)
		return
	}
	callee := c.StaticCallee()
	if callee != nil && callee.Pkg != nil && callee.Pkg.Pkg.Path() == "sort" && (callee.Name() == "Slice" || callee.Name() == "SliceStable") {
		x.execSortSlice(f, i)
		return
	}
	if callee != nil && callee.Pkg != nil && callee.Pkg.Pkg.Path() == "fmt" && callee.Name() == "Sprintf" {
		if x.execSprintf(f, i) {
			return
		}
	}
	if callee != nil && callee.Pkg != nil && callee.Pkg.Pkg.Path() == "encoding/binary" && (callee.Name() == "PutUint64" || callee.Name() == "PutUint32") && len(c.Args) == 3 {
		x.execPutUint(f, i, callee)
		return
	}
	if callee != nil && callee.Pkg != nil && callee.Pkg.Pkg.Path() == "google.golang.org/protobuf/proto" && (callee.Name() == "Unmarshal" || callee.Name() == "Marshal") {
		x.execProto(f, i, callee)
		x.afterCallAt(f, i)
		return
	}
	var binds []Val
	if callee == nil {
		// call of a function value
		fv := x.val(f, c.Value)
		if fv.Fn != nil {
			callee = fv.Fn
			binds = fv.Bind
		} else if x.localFuncVar(f, c.Value) && len(x.closures) > 0 {
			x.execDispatch(f, i, fv.T)
			return
		} else {
			x.execCallback(f, i)
			return
		}
	} else if mc, ok := c.Value.(*ssa.MakeClosure); ok {
		binds = x.val(f, mc).Bind
	}
	var args []Val
	for _, a := range c.Args {
		args = append(args, x.val(f, a))
	}
	res := x.callStatic(f, callee, args, binds, c.Args, i.Pos())
	x.bindCallResult(f, i, callee.Signature, res)
	x.afterCallAt(f, i)
}

// localFuncVar: the called value is read from a local variable of the function under execution
// (not a parameter, field or captured variable), so it can only hold nil or a closure made here.
func (x *Exec) localFuncVar(f *Frame, v ssa.Value) bool {
	u, ok := v.(*ssa.UnOp)
	if !ok || u.Op != token.MUL {
		if ph, ok := v.(*ssa.Phi); ok {
			for _, e := range ph.Edges {
				if _, isClo := e.(*ssa.MakeClosure); !isClo {
					if c, isConst := e.(*ssa.Const); !isConst || c.Value != nil {
						return false
					}
				}
			}
			return true
		}
		return false
	}
	a, ok := u.X.(*ssa.Alloc)
	if !ok || a.Heap || a.Parent() != f.fn {
		return false
	}
	// every store into the variable must be a closure made in this function (or nil)
	for _, r := range *a.Referrers() {
		if st, ok := r.(*ssa.Store); ok && st.Addr == a {
			switch w := st.Val.(type) {
			case *ssa.MakeClosure:
			case *ssa.Const:
				if w.Value != nil {
					return false
				}
			default:
				return false
			}
		}
	}
	return true
}

// execDispatch calls a function variable that holds one of the closures made by this function:
// one guarded call per closure of a matching signature, states merged afterwards. Calling it when
// it holds none of them (nil) is a panic obligation.
func (x *Exec) execDispatch(f *Frame, i *ssa.Call, t Term) {
	c := &i.Call
	sig := c.Signature()
	var cands []Val
	for _, name := range x.closureOrder {
		v := x.closures[name]
		if types.Identical(v.Fn.Signature, sig) || sigMatchesBound(v.Fn, sig) {
			cands = append(cands, v)
		}
	}
	if len(cands) == 0 {
		x.execCallback(f, i)
		return
	}
	base := x.cur
	var alts []Term
	for _, cv := range cands {
		alts = append(alts, Eq(t, cv.T))
	}
	if !x.noSafety() {
		x.obligeGround(f, "nil", x.safetyTags(), base.reach, Or(alts...), "call of a function variable that holds none of the closures assigned to it", i.Pos())
	}
	var args []Val
	for _, a := range c.Args {
		args = append(args, x.val(f, a))
	}
	var ins []inEdge
	var results [][]Val
	for k, cv := range cands {
		st := base.clone()
		st.reach = x.b.Def(fmt.Sprintf("reach_disp%d", k), And(base.reach, Eq(t, cv.T)))
		x.cur = st
		res := x.callStatic(f, cv.Fn, args, cv.Bind, c.Args, i.Pos())
		ins = append(ins, inEdge{x.cur, x.cur.reach})
		results = append(results, res)
	}
	x.cur = x.mergeStates(ins, "disp_"+i.Name())
	nres := sig.Results().Len()
	out := make([]Val, nres)
	for r := 0; r < nres; r++ {
		var vals []Term
		for k := range cands {
			vals = append(vals, results[k][r].T)
		}
		out[r] = Val{T: x.iteChain(ins, vals, "dispres")}
	}
	x.bindCallResult(f, i, sig, out)
	x.afterCallAt(f, i)
}

func sigMatchesBound(fn *ssa.Function, sig *types.Signature) bool {
	return types.Identical(types.NewSignatureType(nil, nil, nil, fn.Signature.Params(), fn.Signature.Results(), fn.Signature.Variadic()), types.NewSignatureType(nil, nil, nil, sig.Params(), sig.Results(), sig.Variadic()))
}

// afterCallAt runs the contract's mid-function clauses anchored after this call instruction:
// ghost updates first, then assertions (proved, then assumed).
func (x *Exec) afterCallAt(f *Frame, i *ssa.Call) {
	if !f.top || x.con == nil || (len(x.con.Asserts) == 0 && len(x.con.GhostUpd) == 0) {
		return
	}
	name, k := x.staticCallOrdinal(f, i)
	x.runGhostUpdates(f, name, k, false)
	x.afterCallNamed(f, name, k)
}

// runGhostUpdates performs the ghost assignments anchored at (anchor, k). lenient: an update whose
// expression names a local that does not exist on this path is skipped (used at exits).
func (x *Exec) runGhostUpdates(f *Frame, anchor string, k int, lenient bool) {
	if !f.top || x.con == nil {
		return
	}
	for _, gu := range x.con.GhostUpd {
		if gu.Callee != anchor || gu.K != k {
			continue
		}
		g := x.ghostVar(gu.Name)
		if g == nil {
			x.fail("ghost update of undeclared ghost %s", gu.Name)
		}
		env := x.newEnv(x.localVars(f), x.cur, x.entry)
		var v TV
		ok := true
		func() {
			defer func() {
				if r := recover(); r != nil {
					if _, isSpec := r.(specErr); isSpec && lenient {
						ok = false
						return
					}
					panic(r)
				}
			}()
			v = env.Tr(gu.Value)
		}()
		if !ok {
			continue
		}
		gt := x.parseSpecType(g.Type, token.NoPos)
		if v.T.Sort != gt.sort {
			x.fail("ghost update %s: value of sort %s, declared %s", gu.Src, v.T.Sort, gt.sort)
		}
		x.cur.heaps[x.ghostHeap(gu.Name)] = x.b.Def("gv_"+gu.Name, v.T)
	}
}

// afterCall proves and then assumes the contract's mid-function assertions placed after this call.
func (x *Exec) afterCall(f *Frame, name string) {
	if !f.top || x.con == nil || len(x.con.Asserts) == 0 {
		return
	}
	if x.callCount == nil {
		x.callCount = map[string]int{}
	}
	k := x.callCount[name]
	x.callCount[name] = k + 1
	x.afterCallNamed(f, name, k)
}

func (x *Exec) afterCallNamed(f *Frame, name string, k int) {
	for _, a := range x.con.Asserts {
		if a.Callee != name || a.K != k {
			continue
		}
		vars := x.localVars(f)
		env := x.newEnv(vars, x.cur.clone(), x.entry)
		x.obligeSpec(f, "assert", a.Clause, x.cur.reach, env, "")
		x.assumeSpec(x.cur.reach, a.Clause.Expr, env, "assert "+a.Clause.Src)
	}
}

// localVars: parameters plus the named locals visible in the current state.
func (x *Exec) localVars(f *Frame) map[string]TV {
	li := &loopInfo{header: f.fn.Blocks[0]}
	return x.loopVars(f, li)
}

func (x *Exec) bindCallResult(f *Frame, i *ssa.Call, sig *types.Signature, res []Val) {
	switch sig.Results().Len() {
	case 0:
		f.regs[i] = Val{}
	case 1:
		r := res[0]
		if r.T.S != "" && r.Fn == nil && r.LV == nil {
			r.T = x.b.Def("r_"+i.Name(), r.T)
		}
		f.regs[i] = r
	default:
		f.regs[i] = Val{Tup: res}
	}
}

func (x *Exec) argTerms(f *Frame, args []Val, argVals []ssa.Value) []Term {
	ts := make([]Term, len(args))
	for k, a := range args {
		if a.LV != nil && a.T.S == "" {
			ts[k] = x.materialize(f, a.LV, argVals[k].Type())
		} else {
			ts[k] = a.T
		}
	}
	return ts
}

func (x *Exec) callStatic(f *Frame, callee *ssa.Function, args []Val, binds []Val, argVals []ssa.Value, pos token.Pos) []Val {
	// bound method value (recv.Method used as a function): call the method on the bound receiver
	if strings.HasPrefix(callee.Synthetic, "bound method wrapper") && len(binds) == 1 {
		if m, ok := callee.Object().(*types.Func); ok {
			if target := x.prog.FuncValue(m); target != nil {
				return x.callStatic(f, target, append([]Val{binds[0]}, args...), nil, nil, pos)
			}
		}
	}
	key := relKey(callee)
	con := x.db.Funcs[key]
	if con != nil && !con.Inline {
		ts := x.argTerms(f, args, argVals)
		rs := x.callContract(f, callee, con, ts, pos)
		out := make([]Val, len(rs))
		for k, r := range rs {
			out[k] = Val{T: r}
		}
		return out
	}
	// String()/Error()/GoString() methods: effect-free
	if sig := callee.Signature; sig.Recv() != nil && sig.Params().Len() == 0 && sig.Results().Len() == 1 &&
		(callee.Name() == "String" || callee.Name() == "Error" || callee.Name() == "GoString") {
		x.note("String()/Error() methods are assumed effect-free")
		t := x.b.Fresh("str_"+callee.Name(), x.tm.SortOf(sig.Results().At(0).Type()))
		x.assume(x.cur.reach, x.typeFact(t, sig.Results().At(0).Type(), x.cur.Alloc(x)))
		return []Val{{T: t}}
	}
	if x.inlinable(callee) || (con != nil && con.Inline && callee.Blocks != nil) {
		if f.depth >= 6 {
			x.fail("inlining too deep at %s", callee)
		}
		return x.inline(f, callee, args, binds, pos)
	}
	// external or large function without contract
	if callee.Pkg != nil && x.db.PurePkg[callee.Pkg.Pkg.Path()] {
		return x.pureCall(f, callee, pos)
	}
	if callee.Pkg == nil && callee.Object() != nil && callee.Object().Pkg() != nil && x.db.PurePkg[callee.Object().Pkg().Path()] {
		return x.pureCall(f, callee, pos)
	}
	x.fail("call to %s: no contract and not inlinable", callee)
	return nil
}

// pureCall: effect-free call with unconstrained (well-typed) results.
func (x *Exec) pureCall(f *Frame, callee *ssa.Function, pos token.Pos) []Val {
	x.note("functions of package " + pkgPathOf(callee) + " are assumed effect-free on the modelled heap, results unconstrained")
	res := callee.Signature.Results()
	out := make([]Val, res.Len())
	if res.Len() > 0 {
		// results may be freshly allocated objects
		a := x.cur.Alloc(x)
		na := x.b.Fresh("alloc_after_"+callee.Name(), SInt)
		x.assume(x.cur.reach, mk(SBool, "(>= %s %s)", na, a))
		x.cur.heaps["$alloc"] = na
	}
	for k := 0; k < res.Len(); k++ {
		t := x.b.Fresh("ext_"+callee.Name(), x.tm.SortOf(res.At(k).Type()))
		x.assume(x.cur.reach, x.typeFact(t, res.At(k).Type(), x.cur.Alloc(x)))
		out[k] = Val{T: t}
	}
	return out
}

func pkgPathOf(fn *ssa.Function) string {
	if fn.Pkg != nil {
		return fn.Pkg.Pkg.Path()
	}
	if fn.Object() != nil && fn.Object().Pkg() != nil {
		return fn.Object().Pkg().Path()
	}
	return "?"
}

// callContract: check preconditions, havoc the frame, assume postconditions.
func (x *Exec) callContract(f *Frame, callee *ssa.Function, con *Contract, args []Term, pos token.Pos) []Term {
	short := callee.Name()
	x.b.Comment("call " + relKey(callee) + " at " + x.posStr(pos))
	vars := map[string]TV{}
	// a callback parameter of the function under proof passed on as an argument: the callee's
	// <param>$k (results of its callback) are the caller's <param>$k
	for k, p := range callee.Params {
		if k >= len(args) {
			continue
		}
		if sig, ok := p.Type().Underlying().(*types.Signature); ok {
			for name, tv := range x.params {
				if tv.T.S != args[k].S || strings.Contains(name, "$") {
					continue
				}
				for j := 0; j < sig.Results().Len(); j++ {
					if r, ok := x.params[fmt.Sprintf("%s$%d", name, j)]; ok {
						vars[fmt.Sprintf("%s$%d", p.Name(), j)] = r
					}
				}
			}
		}
	}
	for k, p := range callee.Params {
		if k < len(args) {
			vars[p.Name()] = TV{args[k], p.Type()}
			if k == 0 && callee.Signature.Recv() != nil {
				vars["self"] = TV{args[k], p.Type()}
			}
		}
	}
	if callee.Blocks == nil {
		// external: parameter names from the signature
		sig := callee.Signature
		k := 0
		if sig.Recv() != nil {
			vars[sig.Recv().Name()] = TV{args[0], sig.Recv().Type()}
			vars["recv"] = TV{args[0], sig.Recv().Type()}
			k = 1
		}
		for j := 0; j < sig.Params().Len(); j++ {
			if k+j < len(args) {
				n := sig.Params().At(j).Name()
				if n == "" || n == "_" {
					n = fmt.Sprintf("arg%d", j)
				}
				vars[n] = TV{args[k+j], sig.Params().At(j).Type()}
				vars[fmt.Sprintf("arg%d", j)] = TV{args[k+j], sig.Params().At(j).Type()}
			}
		}
	}
	pre := x.cur.clone()
	env := x.newEnv(vars, pre, pre)
	env.fnPos = token.NoPos
	env.specPkg = contractPkg(con)
	// receiver non-nil
	if callee.Signature.Recv() != nil && len(args) > 0 {
		if _, ok := callee.Signature.Recv().Type().Underlying().(*types.Pointer); ok && !con.Trusted {
			x.obligeGround(f, "pre@call:"+short+":recv", x.safetyTags(), x.cur.reach, Not(Eq(args[0], IntLit(0))), "receiver of "+short+" is non-nil", pos)
		}
	}
	for _, r := range con.Requires {
		cl := r
		if len(cl.Tags) == 0 || true {
			cl.Tags = mergeTags(r.Tags, x.safetyTags())
		}
		x.obligeSpec(f, "pre@call:"+short, cl, x.cur.reach, env, "")
	}
	// havoc
	if !con.Pure {
		a := x.cur.Alloc(x)
		na := x.b.Fresh("alloc_after_"+short, SInt)
		x.assume(x.cur.reach, mk(SBool, "(>= %s %s)", na, a))
		x.cur.heaps["$alloc"] = na
	}
	x.havocModifies(con, env)
	// results
	res := callee.Signature.Results()
	out := make([]Term, res.Len())
	post := map[string]TV{}
	for k, v := range vars {
		post[k] = v
	}
	for k := 0; k < res.Len(); k++ {
		rt := res.At(k).Type()
		t := x.b.Fresh("res_"+short, x.tm.SortOf(rt))
		out[k] = t
		x.assume(x.cur.reach, x.typeFact(t, rt, x.cur.Alloc(x)))
		tv := TV{t, rt}
		if res.Len() == 1 {
			post["result"] = tv
		}
		post[fmt.Sprintf("result%d", k)] = tv
		if n := res.At(k).Name(); n != "" && n != "_" {
			post[n] = tv
		}
	}
	for _, fr := range con.Fresh {
		tv, ok := post[fr]
		if !ok {
			sfail("fresh %s: no such result in %s", fr, con.Key)
		}
		x.assume(x.cur.reach, Implies(Not(Eq(tv.T, IntLit(0))), And(mk(SBool, "(>= %s %s)", tv.T, pre.Alloc(x)), mk(SBool, "(< %s %s)", tv.T, x.cur.Alloc(x)))))
		if p, ok := tv.Ty.Underlying().(*types.Pointer); ok {
			if n, s := namedStruct(p.Elem()); s != nil && n != nil {
				for q := 0; q < s.NumFields(); q++ {
					fv := s.Field(q)
					hn := x.fieldHeapName(n, fv)
					h := x.cur.Heap(x, hn, ArraySort(SInt, x.tm.SortOf(fv.Type())))
					x.cur.heaps[hn] = x.b.Def(hn, Ite(Eq(tv.T, IntLit(0)), h, StoreT(h, tv.T, x.b.Fresh("hv_"+hn, x.tm.SortOf(fv.Type())))))
				}
			}
		}
	}
	if len(con.XEnsures) > 0 || len(con.PanicsIf) > 0 {
		// the callee may panic: split the state
		panicked := x.b.Fresh("panicked_"+short, SBool)
		ps := x.cur.clone()
		ps.reach = x.b.Def("reach_panic", And(x.cur.reach, panicked))
		xenv := x.newEnv(vars, ps, pre)
		xenv.fnPos = token.NoPos
		for _, e := range con.XEnsures {
			x.assumeSpecIn(ps, ps.reach, e.Expr, xenv, "xensures of "+short+": "+e.Src)
		}
		for _, e := range con.PanicsIf {
			pe := *xenv
			pe.st = pre
			x.assumeSpecIn(ps, ps.reach, e.Expr, &pe, "panics_if of "+short+": "+e.Src)
		}
		f.panics = append(f.panics, panicState{st: ps, pos: pos, what: "panic in " + short})
		x.cur.reach = x.b.Def("reach_nopanic", And(x.cur.reach, Not(panicked)))
	}
	penv := x.newEnv(post, x.cur.clone(), pre)
	penv.specPkg = contractPkg(con)
	penv.fnPos = token.NoPos
ensLoop:
	for _, e := range con.Ensures {
		// a postcondition over the callee's ghost locals states something about its own execution; it has
		// no meaning at a call site and is not assumed there
		for _, g := range con.Ghosts {
			if mentionsVar(e.Expr, g.Name) {
				continue ensLoop
			}
		}
		x.assumeSpec(x.cur.reach, e.Expr, penv, "ensures of "+short+": "+e.Src)
	}
	if con.Trusted {
		x.note("assumed contract (not verified): " + con.Key)
	}
	return out
}

func mergeTags(a, b []string) []string {
	seen := map[string]bool{}
	var out []string
	for _, t := range append(append([]string{}, a...), b...) {
		if !seen[t] {
			seen[t] = true
			out = append(out, t)
		}
	}
	return out
}

// inline executes the callee's body in the caller's state.
func (x *Exec) inline(f *Frame, callee *ssa.Function, args []Val, binds []Val, pos token.Pos) []Val {
	nf := &Frame{fn: callee, regs: map[ssa.Value]Val{}, prefix: f.prefix + "inl:" + callee.Name() + "/", depth: f.depth + 1, parent: f}
	for k, p := range callee.Params {
		nf.regs[p] = args[k]
	}
	for k, fv := range callee.FreeVars {
		if k < len(binds) {
			nf.regs[fv] = binds[k]
		}
	}
	save := x.cur
	x.b.Comment("inline " + callee.String())
	x.runFrame(nf)
	if len(nf.deferred) > 0 {
		x.fail("inlined function %s uses defer", callee.Name())
	}
	f.panics = append(f.panics, nf.panics...)
	if len(nf.exits) == 0 {
		// callee never returns normally (always panics)
		x.cur = save
		x.cur.reach = tFalse
		x.cur = &State{reach: tFalse, locals: save.locals, heaps: save.heaps}
		res := callee.Signature.Results()
		out := make([]Val, res.Len())
		for k := range out {
			out[k] = Val{T: x.tm.Zero(res.At(k).Type())}
		}
		return out
	}
	var ins []inEdge
	for _, e := range nf.exits {
		ins = append(ins, inEdge{e.st, e.st.reach})
	}
	merged := x.mergeStates(ins, "ret_"+callee.Name())
	// caller locals are untouched by the callee: restore them from the saved state
	for a, v := range save.locals {
		if _, isCalleeLocal := merged.locals[a]; !isCalleeLocal || a.Parent() != callee {
			merged.locals[a] = v
		}
	}
	// locals written through closures (bindings) live in cells or in the caller's locals table and are
	// merged through merged.locals when the closure stores to them.
	for _, e := range nf.exits {
		for a := range e.st.locals {
			if a.Parent() != callee {
				// value possibly modified by the closure body: take the merged value
				var vals []Term
				for _, e2 := range nf.exits {
					vals = append(vals, e2.st.locals[a])
				}
				merged.locals[a] = x.iteChain(ins, vals, "m_"+a.Comment)
			}
		}
		break
	}
	x.cur = merged
	n := callee.Signature.Results().Len()
	out := make([]Val, n)
	for k := 0; k < n; k++ {
		var vals []Term
		for _, e := range nf.exits {
			vals = append(vals, e.results[k])
		}
		out[k] = Val{T: x.iteChain(ins, vals, "ret_"+callee.Name())}
	}
	delete(richTable, nf)
	return out
}

func (x *Exec) execCallback(f *Frame, i *ssa.Call) {
	// call through a function value of unknown identity: no effect on the modelled heap, arbitrary results
	x.note("calls through function values (callbacks) have no effect on the modelled heap; results are arbitrary")
	sig := i.Call.Signature()
	res := sig.Results()
	a := x.cur.Alloc(x)
	na := x.b.Fresh("alloc_after_cb", SInt)
	x.assume(x.cur.reach, mk(SBool, "(>= %s %s)", na, a))
	x.cur.heaps["$alloc"] = na
	fv := x.term(f, i.Call.Value)
	if !x.noSafety() {
		x.obligeGround(f, "nil", x.safetyTags(), x.cur.reach, Not(Eq(fv, IntLit(0))), "call of nil function value", i.Pos())
	}
	out := make([]Val, res.Len())
	// a callback that is a parameter of the function under proof returns the same values at every
	// call (named <param>$k in contracts)
	pname := ""
	for _, p := range x.fn.Params {
		if x.params[p.Name()].T.S == fv.S {
			pname = p.Name()
		}
	}
	for k := 0; k < res.Len(); k++ {
		var t Term
		if pname != "" {
			t = x.params[fmt.Sprintf("%s$%d", pname, k)].T
			x.note("callback parameters are deterministic within one call (" + pname + "$k names their results)")
		} else {
			t = x.b.Fresh("cb_"+i.Name(), x.tm.SortOf(res.At(k).Type()))
			x.b.inputs = append(x.b.inputs, t.S)
		}
		x.assume(x.cur.reach, x.typeFact(t, res.At(k).Type(), x.cur.Alloc(x)))
		out[k] = Val{T: t}
	}
	x.bindCallResult(f, i, sig, out)
}

// havocModifies gives fresh values to everything the contract's modifies clauses name (whole heaps for
// every(...), single cells otherwise), evaluated in env.
func (x *Exec) havocModifies(con *Contract, env *Env) {
	ms := x.resolveModifies(con, env)
	for hn := range ms.whole {
		h := x.cur.heaps[hn]
		if h.S == "" {
			h = x.initHeaps[hn]
		}
		if h.S == "" {
			continue
		}
		x.cur.heaps[hn] = x.b.Fresh("hv_"+hn, h.Sort)
	}
	for hn, objs := range ms.objs {
		h, ok := x.cur.heaps[hn]
		if !ok {
			h, ok = x.initHeaps[hn]
		}
		if !ok {
			// heap not yet touched: create it through the env evaluation (already done by resolveModifies)
			continue
		}
		for _, o := range objs {
			h = StoreT(h, o, x.b.Fresh("hv_"+hn, arrayElem(h.Sort)))
		}
		x.cur.heaps[hn] = x.b.Def(hn, h)
	}
}

func (x *Exec) execInvoke(f *Frame, i *ssa.Call) {
	c := &i.Call
	recv := x.term(f, c.Value)
	m := c.Method
	key := ifaceKey(c.Value.Type(), m)
	con := x.db.Funcs[key]
	if con == nil {
		// pure packages: interface declared in an effect-free package
		if m.Pkg() != nil && x.db.PurePkg[m.Pkg().Path()] {
			x.note("methods of interfaces of package " + m.Pkg().Path() + " are assumed effect-free")
			sig := m.Type().(*types.Signature)
			out := make([]Val, sig.Results().Len())
			for k := range out {
				t := x.b.Fresh("inv_"+m.Name(), x.tm.SortOf(sig.Results().At(k).Type()))
				x.assume(x.cur.reach, x.typeFact(t, sig.Results().At(k).Type(), x.cur.Alloc(x)))
				out[k] = Val{T: t}
			}
			x.bindCallResult(f, i, sig, out)
			return
		}
		x.fail("interface method call %s without assumed contract (%s)", m.Name(), key)
	}
	if !x.noSafety() {
		x.obligeGround(f, "nil", x.safetyTags(), x.cur.reach, Not(Eq(recv, nilIfc)), "method call on nil interface: "+m.Name(), i.Pos())
	}
	x.assume(x.cur.reach, Not(Eq(recv, nilIfc)))
	sig := m.Type().(*types.Signature)
	vars := map[string]TV{"recv": {recv, c.Value.Type()}}
	var args []Term
	for k, a := range c.Args {
		t := x.term(f, a)
		args = append(args, t)
		n := sig.Params().At(min(k, sig.Params().Len()-1)).Name()
		if n != "" && n != "_" {
			vars[n] = TV{t, a.Type()}
		}
		vars[fmt.Sprintf("arg%d", k)] = TV{t, a.Type()}
	}
	pre := x.cur.clone()
	env := x.newEnv(vars, pre, pre)
	for _, r := range con.Requires {
		cl := r
		cl.Tags = mergeTags(r.Tags, x.safetyTags())
		x.obligeSpec(f, "pre@call:"+m.Name(), cl, x.cur.reach, env, "")
	}
	if !con.Pure {
		a := x.cur.Alloc(x)
		na := x.b.Fresh("alloc_after_"+m.Name(), SInt)
		x.assume(x.cur.reach, mk(SBool, "(>= %s %s)", na, a))
		x.cur.heaps["$alloc"] = na
		env.specPkg = contractPkg(con)
		x.havocModifies(con, env)
	}
	res := sig.Results()
	out := make([]Val, res.Len())
	post := map[string]TV{}
	for k, v := range vars {
		post[k] = v
	}
	for k := 0; k < res.Len(); k++ {
		t := x.b.Fresh("res_"+m.Name(), x.tm.SortOf(res.At(k).Type()))
		x.assume(x.cur.reach, x.typeFact(t, res.At(k).Type(), x.cur.Alloc(x)))
		out[k] = Val{T: t}
		tv := TV{t, res.At(k).Type()}
		if res.Len() == 1 {
			post["result"] = tv
		}
		post[fmt.Sprintf("result%d", k)] = tv
	}
	penv := x.newEnv(post, x.cur.clone(), pre)
	penv.specPkg = contractPkg(con)
	for _, e := range con.Ensures {
		x.assumeSpec(x.cur.reach, e.Expr, penv, "ensures of "+key+": "+e.Src)
	}
	x.note("assumed contract (not verified): " + con.Key)
	x.bindCallResult(f, i, sig, out)
}

func ifaceKey(t types.Type, m *types.Func) string {
	t = types.Unalias(t)
	if n, ok := t.(*types.Named); ok && n.Obj().Pkg() != nil {
		return n.Obj().Pkg().Path() + "::(" + n.Obj().Name() + ")." + m.Name()
	}
	if n, ok := t.(*types.Named); ok {
		return "::(" + n.Obj().Name() + ")." + m.Name()
	}
	return "::(" + t.String() + ")." + m.Name()
}

// ---------------------------------------------------------------------------

func (x *Exec) execBuiltin(f *Frame, i *ssa.Call, b *ssa.Builtin) {
	args := i.Call.Args
	switch b.Name() {
	case "ssa:deferstack":
		f.regs[i] = Val{T: IntLit(0)}
	case "len":
		a := x.term(f, args[0])
		switch u := args[0].Type().Underlying().(type) {
		case *types.Slice:
			if isByteSlice(args[0].Type()) {
				x.setReg(f, i, x.strLen(nil, a))
			} else {
				x.setReg(f, i, SlLen(a))
			}
		case *types.Basic:
			x.setReg(f, i, x.strLen(nil, a))
		case *types.Map:
			mv := x.mapSel(x.cur, u, a)
			t := x.b.Def("len", Ite(Eq(a, IntLit(0)), IntLit(0), MapCard(mv)))
			x.assume(x.cur.reach, mk(SBool, "(>= %s 0)", t))
			x.setReg(f, i, t)
		case *types.Array:
			x.setReg(f, i, IntLit(u.Len()))
		case *types.Pointer:
			x.setReg(f, i, IntLit(u.Elem().Underlying().(*types.Array).Len()))
		default:
			x.fail("len of %s", args[0].Type())
		}
	case "cap":
		x.fail("cap is not modelled")
	case "append":
		x.execAppend(f, i)
	case "copy":
		x.execCopy(f, i)
	case "delete":
		mt := args[0].Type().Underlying().(*types.Map)
		x.mapDelete(f, mt, x.term(f, args[0]), x.term(f, args[1]))
		f.regs[i] = Val{}
	case "panic":
		x.execPanic(f, i.Pos(), "panic")
	case "min", "max":
		t := x.term(f, args[0])
		for _, a := range args[1:] {
			u := x.term(f, a)
			if t.Sort != SInt {
				x.fail("min/max on %s", t.Sort)
			}
			t = mk(SInt, "(i%s %s %s)", b.Name(), t, u)
		}
		x.setReg(f, i, t)
	case "recover":
		if x.inRecover {
			t := x.b.Fresh("recovered", SIfc)
			x.assume(x.cur.reach, And(Not(Eq(IfcTag(t), IntLit(0))), x.typeFact(t, i.Type(), x.cur.Alloc(x))))
			f.regs[i] = Val{T: t}
			x.inRecover = false // a second recover() returns nil
		} else {
			f.regs[i] = Val{T: nilIfc}
		}
	case "print", "println":
		f.regs[i] = Val{}
	case "ssa:wrapnilchk":
		f.regs[i] = x.val(f, args[0])
	default:
		x.fail("builtin %s", b.Name())
	}
}

func (x *Exec) execAppend(f *Frame, i *ssa.Call) {
	args := i.Call.Args
	s := x.term(f, args[0])
	if isByteSlice(args[0].Type()) {
		// append([]byte, bytes...) / append([]byte, string...): concatenation
		t := x.term(f, args[1])
		x.setReg(f, i, x.strConcat(nil, s, t))
		return
	}
	t := x.term(f, args[1])
	// append(s, t...) where t has a statically known small length (varargs array) is unrolled;
	// otherwise an uninterpreted concatenation with ground facts.
	if n, ok := x.constLen(f, args[1]); ok {
		elems := SlElems(s)
		ln := SlLen(s)
		for k := int64(0); k < n; k++ {
			elems = StoreT(elems, mk(SInt, "(+ %s %d)", ln, k), Select(SlElems(t), IntLit(k)))
		}
		x.setReg(f, i, MkSlice(elems, mk(SInt, "(+ %s %d)", ln, n)))
		x.cands.addIdx(ln)
		return
	}
	es := sliceElem(s.Sort)
	fn := "sl_append_" + sanitize(string(es))
	x.b.DeclFun(fn, []Sort{s.Sort, s.Sort}, s.Sort)
	r := x.b.Def("app", App(s.Sort, fn, s, t))
	x.assume(x.cur.reach, mk(SBool, "(= %s (+ %s %s))", SlLen(r), SlLen(s), SlLen(t)))
	// element facts are quantified: instantiate at known index candidates lazily via a spec hypothesis
	q := &Expr{Kind: EQuant, Name: "forall", Vars: []QVar{{Name: "j$", Type: "int"}},
		Args: []*Expr{{Kind: ECall, Name: "$appended", Args: []*Expr{{Kind: EIdent, Name: "j$"}}}}}
	env := x.newEnv(map[string]TV{"$r": {r, nil}, "$s": {s, nil}, "$t": {t, nil}}, x.cur.clone(), x.entry)
	x.addQhyp(x.cur, qhyp{mark: x.b.Mark(), guard: x.cur.reach, expr: q, env: env, src: "append elements"})
	if x.con != nil && x.con.Hybrid {
		q2 := &Expr{Kind: EQuant, Name: "forall", Vars: []QVar{{Name: "j$", Type: "int"}},
			Args: []*Expr{{Kind: ECall, Name: "$appended2", Args: []*Expr{{Kind: EIdent, Name: "j$"}}}}}
		x.addQhyp(x.cur, qhyp{mark: x.b.Mark(), guard: x.cur.reach, expr: q2, env: env, src: "append elements (indexed from the appended slice)"})
	}
	x.setReg(f, i, r)
}

// constLen: the static length of a slice made from a varargs array.
func (x *Exec) constLen(f *Frame, v ssa.Value) (int64, bool) {
	if sl, ok := v.(*ssa.Slice); ok && sl.Low == nil && sl.High == nil {
		if p, ok := sl.X.Type().Underlying().(*types.Pointer); ok {
			if at, ok := p.Elem().Underlying().(*types.Array); ok {
				return at.Len(), true
			}
		}
	}
	if c, ok := v.(*ssa.Const); ok && c.Value == nil {
		return 0, true
	}
	return 0, false
}

// ---------------------------------------------------------------------------
// defers: only deferred calls without effect on the modelled state are accepted (treated as no-ops
// when their callee is in a pure package or is an unlock); others make the function unsupported.

func (x *Exec) execDefer(f *Frame, i *ssa.Defer) {
	callee := i.Call.StaticCallee()
	if callee != nil {
		p := pkgPathOf(callee)
		if x.db.PurePkg[p] || strings.HasSuffix(callee.Name(), "Unlock") || strings.HasSuffix(callee.Name(), "RUnlock") {
			x.note("deferred calls into effect-free packages / unlocks are no-ops")
			return
		}
	}
	if i.Call.IsInvoke() {
		if i.Call.Method.Pkg() != nil && x.db.PurePkg[i.Call.Method.Pkg().Path()] {
			return
		}
		x.fail("defer of interface method %s", i.Call.Method.Name())
	}
	fv := x.val(f, i.Call.Value)
	if fv.Fn == nil || fv.Fn.Blocks == nil {
		x.fail("defer of %s", i.Call.Value)
	}
	var args []Val
	for _, a := range i.Call.Args {
		args = append(args, x.val(f, a))
	}
	f.deferred = append(f.deferred, deferRec{ins: i, fn: fv, args: args, guard: x.cur.reach})
}

// runDeferred runs the deferred closures (last first) in the current state. Defers registered on a
// path are assumed to be registered on every path reaching the exit (true for the accepted shape:
// defers at the top of the function).
func (x *Exec) runDeferred(f *Frame) {
	for k := len(f.deferred) - 1; k >= 0; k-- {
		d := f.deferred[k]
		if d.ins.Block() != f.fn.Blocks[0] {
			// a defer registered on some paths only (if c { defer ... }): it runs exactly on the paths
			// that went through its registration; not supported inside loops
			for _, li := range f.loops {
				if li != nil && li.body[d.ins.Block()] {
					x.fail("defer inside a loop")
				}
			}
			base := x.cur
			taken := base.clone()
			taken.reach = x.b.Def("reach_defer", And(base.reach, d.guard))
			x.cur = taken
			x.inline(f, d.fn.Fn, d.args, d.fn.Bind, d.ins.Pos())
			takenSt := x.cur
			skip := base.clone()
			skip.reach = x.b.Def("reach_nodefer", And(base.reach, Not(d.guard)))
			x.cur = x.mergeStates([]inEdge{{takenSt, takenSt.reach}, {skip, skip.reach}}, "defer")
			continue
		}
		x.inline(f, d.fn.Fn, d.args, d.fn.Bind, d.ins.Pos())
	}
}

// ---------------------------------------------------------------------------
// ghost summation over string maps: sz(m) = sum over present keys of len(k)+len(v)

func (x *Exec) szTerm(mv Term) Term {
	x.b.DeclFun("sz", []Sort{mv.Sort}, SInt)
	return App(SInt, "sz", mv)
}

// szBound: the content of any store state fits in memory.
func szBound(t Term) Term {
	return And(mk(SBool, "(>= %s 0)", t), mk(SBool, "(<= %s 4611686018427387904)", t))
}

// szMember: the member bound of the ghost sum at a key that is read.
func (x *Exec) szMember(mv, k Term) {
	if !x.usesSz || !isMapSort(mv.Sort) {
		return
	}
	ks, vs := mapVKV(mv.Sort)
	if ks != SStr || vs != SStr {
		return
	}
	s := x.szTerm(mv)
	x.assume(x.cur.reach, And(szBound(s),
		Implies(Select(MapHas(mv), k), mk(SBool, "(>= %s (+ (str_len %s) (str_len %s)))", s, k, Select(MapVal(mv), k)))))
}

// execCopy models the allocate-then-copy idioms on []byte: the destination (a fresh make([]byte, n),
// possibly re-sliced from an offset) receives new content; the register/local holding it is rebound.
func (x *Exec) execCopy(f *Frame, i *ssa.Call) {
	args := i.Call.Args
	if !isByteSlice(args[0].Type()) {
		x.fail("copy on non-byte slices")
	}
	src := x.term(f, args[1])
	dstV := args[0]
	off := IntLit(0)
	var baseV ssa.Value = dstV
	if sl, ok := dstV.(*ssa.Slice); ok {
		if sl.High != nil {
			x.fail("copy into a slice with upper bound")
		}
		baseV = sl.X
		if sl.Low != nil {
			off = x.term(f, sl.Low)
		}
	}
	base := x.val(f, baseV)
	old := base.T
	nw := x.b.Fresh("copied", SStr)
	nonNil := func(t Term) Term { return Ite(Eq(t, Term{"bytes_nil", SStr}), Term{"str_empty", SStr}, t) }
	lenOld := x.strLen(nil, old)
	lenSrc := x.strLen(nil, src)
	facts := []Term{mk(SBool, "(= (str_len %s) %s)", nw, lenOld), Not(Eq(nw, Term{"bytes_nil", SStr}))}
	if off.S == "0" {
		facts = append(facts, Implies(mk(SBool, "(= %s %s)", lenSrc, lenOld), Or(Eq(nw, nonNil(src)), mk(SBool, "(= %s 0)", lenOld))))
		facts = append(facts, Implies(And(mk(SBool, "(= %s %s)", lenSrc, lenOld), mk(SBool, "(= %s 0)", lenOld)), Eq(nw, Term{"str_empty", SStr})))
		facts = append(facts, Implies(mk(SBool, "(<= %s %s)", lenSrc, lenOld), x.strPrefix(nil, nw, src)))
		if x.strPrefixOf == nil {
			x.strPrefixOf = map[string]Term{}
		}
		x.strPrefixOf[nw.S] = src
	} else if p, ok := x.strPrefixOf[old.S]; ok {
		// second copy of the concatenation idiom: old has prefix p; copying src right after it
		cc := x.strConcat(nil, nonNil(p), src)
		facts = append(facts, Implies(And(mk(SBool, "(= %s (str_len %s))", off, p), mk(SBool, "(= (+ %s %s) %s)", off, lenSrc, lenOld)), Eq(nw, cc)))
	} else {
		x.fail("copy at an offset into a destination without a known prefix")
	}
	x.assume(x.cur.reach, And(facts...))
	// rebind
	if base.prov != nil {
		x.cur.locals[base.prov] = nw
	}
	f.regs[baseV] = Val{T: nw, prov: base.prov}
	if baseV != dstV {
		delete(f.regs, dstV)
	}
	// later loads of the local that held the destination see the new content (handled by prov);
	// registers that alias the old value are refreshed
	for v, r := range f.regs {
		if r.T.S == old.S && r.LV == nil && v != baseV {
			r.T = nw
			f.regs[v] = r
		}
	}
	x.setReg(f, i, Term{"0", SInt})
	x.note("[]byte allocate-then-copy idioms are summarised as content equality/concatenation")
}

func (x *Exec) szFacts(before, after, k Term, v *Term) {
	if !x.usesSz {
		return
	}
	sb, sa := x.szTerm(before), x.szTerm(after)
	old := Ite(Select(MapHas(before), k), mk(SInt, "(+ (str_len %s) (str_len %s))", k, Select(MapVal(before), k)), IntLit(0))
	var nw Term
	if v != nil {
		nw = mk(SInt, "(+ (str_len %s) (str_len %s))", k, *v)
	} else {
		nw = IntLit(0)
	}
	x.assume(x.cur.reach, mk(SBool, "(= %s (+ (- %s %s) %s))", sa, sb, old, nw))
	x.assume(x.cur.reach, And(szBound(sa), szBound(sb), mk(SBool, "(>= %s %s)", sb, old)))
	x.note("ghost summation sz over map[string][]byte: update and member-bound facts of a finite sum of non-negative terms; every store state fits in memory (sz <= 2^62)")
}

// execSortSlice models sort.Slice(s, less) (external, assumed): the variable holding s is rebound to a
// permutation of s that is ordered according to the contract of the closure `less` (the closure
// itself is verified against that contract as a function of its own).
func (x *Exec) execSortSlice(f *Frame, i *ssa.Call) {
	args := i.Call.Args
	mi, ok := args[0].(*ssa.MakeInterface)
	if !ok {
		x.fail("sort.Slice: first argument is not a slice value converted in place")
	}
	ld, ok := mi.X.(*ssa.UnOp)
	if !ok || ld.Op != token.MUL {
		x.fail("sort.Slice: the slice must be read from a variable")
	}
	st, ok := mi.X.Type().Underlying().(*types.Slice)
	if !ok || isByteSlice(mi.X.Type()) {
		x.fail("sort.Slice on %s", mi.X.Type())
	}
	lv := x.addrOf(f, ld.X)
	S := x.term(f, mi.X)
	cl := x.val(f, args[1])
	if cl.Fn == nil {
		x.fail("sort.Slice: comparison is not a function literal")
	}
	con := x.db.Funcs[relKey(cl.Fn)]
	if con == nil {
		x.fail("sort.Slice: the comparison closure %s needs a contract (ensures result <==> ...)", relKey(cl.Fn))
	}
	var less *Expr
	for _, e := range con.Ensures {
		if e.Expr.Kind == EBinary && e.Expr.Name == "<==>" && e.Expr.Args[0].Kind == EIdent && e.Expr.Args[0].Name == "result" {
			less = e.Expr.Args[1]
		}
	}
	if less == nil || len(cl.Fn.Params) != 2 {
		x.fail("sort.Slice: contract of %s must have the form ensures result <==> E(i, j)", relKey(cl.Fn))
	}
	es := x.tm.SortOf(st.Elem())
	Sn := x.b.Fresh("sorted", SliceSort(es))
	x.assume(x.cur.reach, Eq(SlLen(Sn), SlLen(S)))
	x.sortCount++
	pname := fmt.Sprintf("perm$%s$%d", sanitize(x.fn.Name()), x.sortCount)
	x.db.Specs[pname] = &SpecFn{Name: pname, Params: []QVar{{Name: "i", Type: "int"}}, Ret: "int", PkgPath: x.pkg.Pkg.Path()}
	id := func(n string) *Expr { return &Expr{Kind: EIdent, Name: n} }
	vars := map[string]TV{"$new": {Sn, mi.X.Type()}, "$old": {S, mi.X.Type()}}
	mkq := func(src string) *Expr {
		e, err := ParseExpr(src)
		if err != nil {
			x.fail("internal: %v", err)
		}
		return e
	}
	// permutation
	h1 := mkq(fmt.Sprintf("forall i$ int :: 0 <= i$ && i$ < len($new) ==> 0 <= %s(i$) && %s(i$) < len($new) && $new[i$] == $old[%s(i$)]", pname, pname, pname))
	h2 := mkq(fmt.Sprintf("forall i$ int, j$ int :: 0 <= i$ && i$ < j$ && j$ < len($new) ==> %s(i$) != %s(j$)", pname, pname))
	// ordered according to the closure's contract: for a < b, not less(b, a)
	subst := map[string]*Expr{cl.Fn.Params[0].Name(): id("j$"), cl.Fn.Params[1].Name(): id("i$")}
	for _, fv := range cl.Fn.FreeVars {
		subst[fv.Name()] = id("$new")
	}
	body := substExpr(less, subst)
	h3 := &Expr{Kind: EQuant, Name: "forall", Vars: []QVar{{Name: "i$", Type: "int"}, {Name: "j$", Type: "int"}},
		Args: []*Expr{{Kind: EBinary, Name: "==>", Args: []*Expr{mkq("0 <= i$ && i$ < j$ && j$ < len($new)"), {Kind: EUnary, Name: "!", Args: []*Expr{body}}}}}}
	iname := strings.Replace(pname, "perm$", "perminv$", 1)
	x.db.Specs[iname] = &SpecFn{Name: iname, Params: []QVar{{Name: "i", Type: "int"}}, Ret: "int", PkgPath: x.pkg.Pkg.Path()}
	h4 := mkq(fmt.Sprintf("forall j$ int :: 0 <= j$ && j$ < len($new) ==> 0 <= %s(j$) && %s(j$) < len($new) && %s(%s(j$)) == j$", iname, iname, pname, iname))
	// consequence of h1 and h4, stated so that a term $old[j] leads to its position after sorting
	h5 := mkq(fmt.Sprintf("forall j$ int :: 0 <= j$ && j$ < len($new) ==> $old[j$] == $new[%s(j$)]", iname))
	for k, h := range []*Expr{h1, h2, h3, h4, h5} {
		env := x.newEnv(vars, x.cur.clone(), x.entry)
		x.addQhyp(x.cur, qhyp{mark: x.b.Mark(), guard: x.cur.reach, expr: h, env: env, src: fmt.Sprintf("sort.Slice (assumed) #%d", k)})
	}
	x.store(f, lv, Sn, i.Pos())
	x.afterCall(f, "sort.Slice")
	x.note("sort.Slice (external) is assumed to leave a permutation of its input ordered according to the contract of its comparison closure")
	f.regs[i] = Val{}
}

// execProto models proto.Marshal / proto.Unmarshal (external, assumed): Marshal has no effect;
// Unmarshal overwrites every field of the message it is given with unconstrained well-typed values
// in which repeated message fields hold no nil element (what protobuf decoding guarantees).
func (x *Exec) execProto(f *Frame, i *ssa.Call, callee *ssa.Function) {
	args := i.Call.Args
	x.note("google.golang.org/protobuf/proto Marshal/Unmarshal are assumed: Unmarshal havocs the message's fields (repeated message fields without nil elements), Marshal is effect-free")
	res := callee.Signature.Results()
	out := make([]Val, res.Len())
	for k := 0; k < res.Len(); k++ {
		t := x.b.Fresh("proto_"+callee.Name(), x.tm.SortOf(res.At(k).Type()))
		x.assume(x.cur.reach, x.typeFact(t, res.At(k).Type(), x.cur.Alloc(x)))
		out[k] = Val{T: t}
	}
	if callee.Name() == "Unmarshal" {
		mi, ok := args[1].(*ssa.MakeInterface)
		if !ok {
			x.fail("proto.Unmarshal: message is not a concrete pointer converted in place")
		}
		pt, ok := mi.X.Type().Underlying().(*types.Pointer)
		if !ok {
			x.fail("proto.Unmarshal: message is not a pointer")
		}
		n, st := namedStruct(pt.Elem())
		if st == nil || n == nil {
			x.fail("proto.Unmarshal: message is not a struct")
		}
		ref := x.term(f, mi.X)
		x.nilCheck(f, ref, i.Pos(), "proto.Unmarshal message")
		a := x.cur.Alloc(x)
		na := x.b.Fresh("alloc_after_Unmarshal", SInt)
		x.assume(x.cur.reach, mk(SBool, "(>= %s %s)", na, a))
		x.cur.heaps["$alloc"] = na
		for k := 0; k < st.NumFields(); k++ {
			fv := st.Field(k)
			hn := x.fieldHeapName(n, fv)
			h := x.cur.Heap(x, hn, ArraySort(SInt, x.tm.SortOf(fv.Type())))
			nv := x.b.Fresh("decoded_"+fv.Name(), x.tm.SortOf(fv.Type()))
			x.assume(x.cur.reach, x.typeFact(nv, fv.Type(), na))
			x.cur.heaps[hn] = x.b.Def(hn, StoreT(h, ref, nv))
			if sl, ok := fv.Type().Underlying().(*types.Slice); ok {
				if _, isPtr := sl.Elem().Underlying().(*types.Pointer); isPtr {
					q, _ := ParseExpr("forall i$ int :: 0 <= i$ && i$ < len($s) ==> $s[i$] != nil")
					env := x.newEnv(map[string]TV{"$s": {nv, fv.Type()}}, x.cur.clone(), x.entry)
					x.addQhyp(x.cur, qhyp{mark: x.b.Mark(), guard: x.cur.reach, expr: q, env: env, src: "decoded repeated field " + fv.Name() + " has no nil element"})
				}
			}
		}
	}
	x.bindCallResult(f, i, callee.Signature, out)
}

// varargsOf returns the SSA values packed into the variadic slice v (built in place by the compiler
// as new [N]T; stores; slice), or nil.
func varargsOf(v ssa.Value) []ssa.Value {
	sl, ok := v.(*ssa.Slice)
	if !ok || sl.Low != nil || sl.High != nil {
		return nil
	}
	al, ok := sl.X.(*ssa.Alloc)
	if !ok {
		return nil
	}
	at, ok := al.Type().(*types.Pointer).Elem().Underlying().(*types.Array)
	if !ok {
		return nil
	}
	out := make([]ssa.Value, at.Len())
	for _, ref := range *al.Referrers() {
		ia, ok := ref.(*ssa.IndexAddr)
		if !ok {
			continue
		}
		c, ok := ia.Index.(*ssa.Const)
		if !ok {
			return nil
		}
		k := int(c.Int64())
		for _, r2 := range *ia.Referrers() {
			if st, ok := r2.(*ssa.Store); ok && st.Addr == ia {
				out[k] = st.Val
			}
		}
	}
	for _, o := range out {
		if o == nil {
			return nil
		}
	}
	return out
}

// execSprintf: fmt.Sprintf with a constant format and integer/string arguments is a deterministic
// function of its arguments: modelled as an uninterpreted function named after the format, so that
// two calls with the same format and equal arguments give equal strings (nothing else is known).
func (x *Exec) execSprintf(f *Frame, i *ssa.Call) bool {
	args := i.Call.Args
	fc, ok := args[0].(*ssa.Const)
	if !ok || fc.Value == nil {
		return false
	}
	vs := varargsOf(args[1])
	if vs == nil {
		return false
	}
	var ts []Term
	var sorts []Sort
	for _, v := range vs {
		mi, ok := v.(*ssa.MakeInterface)
		if !ok {
			return false
		}
		t := x.term(f, mi.X)
		if t.Sort != SInt && t.Sort != SStr {
			return false
		}
		if !isInteger(mi.X.Type()) && t.Sort == SInt {
			return false // pointers etc.
		}
		ts = append(ts, t)
		sorts = append(sorts, t.Sort)
	}
	format := constant.StringVal(fc.Value)
	name := "sprintf_" + sanitize(truncate(format, 24)) + "_" + shortHash(format)
	x.b.DeclFun(name, sorts, SStr)
	r := x.b.Def("spf", App(SStr, name, ts...))
	x.assume(x.cur.reach, x.typeFact(r, types.Typ[types.String], x.cur.Alloc(x)))
	x.sprintfNames[format] = name
	f.regs[i] = Val{T: r}
	x.note("fmt.Sprintf with a constant format and integer/string arguments is a deterministic (uninterpreted) function of its arguments")
	return true
}

// execPutUint: binary.LittleEndian.PutUint64(b, v) and friends overwrite the first bytes of b; for a
// destination of exactly that width (checked) the new content is the uninterpreted encoding of v.
func (x *Exec) execPutUint(f *Frame, i *ssa.Call, callee *ssa.Function) {
	c := &i.Call
	width := 8
	if callee.Name() == "PutUint32" {
		width = 4
	}
	order := "le"
	if strings.Contains(strings.ToLower(c.Args[0].Type().String()), "bigendian") {
		order = "be"
	}
	dstV := c.Args[1]
	base := x.val(f, dstV)
	old := base.T
	v := x.term(f, c.Args[2])
	if !x.noSafety() {
		x.obligeGround(f, "bounds", x.safetyTags(), x.cur.reach, mk(SBool, "(>= %s %d)", x.strLen(nil, old), width), "binary.PutUint: destination too short", i.Pos())
	}
	fn := fmt.Sprintf("u_%s%d", order, width*8)
	x.b.DeclFun(fn, []Sort{SInt}, SStr)
	enc := App(SStr, fn, v)
	nw := x.b.Fresh("putuint", SStr)
	x.assume(x.cur.reach, And(mk(SBool, "(= (str_len %s) (str_len %s))", nw, old), Not(Eq(nw, Term{"bytes_nil", SStr})),
		mk(SBool, "(= (str_len %s) %d)", enc, width),
		Implies(mk(SBool, "(= (str_len %s) %d)", old, width), Eq(nw, enc))))
	if base.prov != nil {
		x.cur.locals[base.prov] = nw
	}
	f.regs[dstV] = Val{T: nw, prov: base.prov}
	for vv, r := range f.regs {
		if r.T.S == old.S && r.LV == nil && vv != dstV {
			r.T = nw
			f.regs[vv] = r
		}
	}
	x.note("encoding/binary PutUint64/PutUint32 on a destination of exactly that width: content becomes the (uninterpreted, injectivity not assumed) fixed-width encoding of the value")
}

// contractPkg: the package a contract was written for (type names in its clauses resolve there).
func contractPkg(con *Contract) string {
	if i := strings.Index(con.Key, "::"); i > 0 {
		return con.Key[:i]
	}
	return ""
}
