package store

// Demonstration for finding D8 (property C11): after PartialKV.Roll the store is empty but still
// reported the size of the previous segment's content.

import (
	"testing"

	"github.com/streamingfast/dstore"
	pbsubstreams "github.com/streamingfast/substreams/pb/sf/substreams/v1"
	"go.uber.org/zap"
)

func TestFindingD8(t *testing.T) {
	cfg, err := NewConfig("s", 0, "hash", pbsubstreams.Module_KindStore_UPDATE_POLICY_SET, "string", dstore.NewMockStore(nil))
	if err != nil {
		t.Fatal(err)
	}
	p := cfg.NewPartialKV(0, zap.NewNop())
	p.Set(1, "key", "value")
	if err := p.Flush(); err != nil {
		t.Fatal(err)
	}
	if p.SizeBytes() != 8 {
		t.Fatalf("size before roll %d", p.SizeBytes())
	}
	p.Roll(100)
	real := uint64(0)
	p.Iter(func(k string, v []byte) error { real += uint64(len(k) + len(v)); return nil })
	if p.SizeBytes() != real {
		t.Fatalf("after Roll the store holds %d bytes but reports %d", real, p.SizeBytes())
	}
}
