package pipeline

// Demonstration for finding D7 (property C12): reprocStateRequired must return the LOWEST store
// initial block below the start block. Run with:
//   go test -overlay <overlay mapping /repo/pipeline/zz_d7_test.go to this file> -run TestFindingD7 ./pipeline

import (
	"testing"

	pbsubstreams "github.com/streamingfast/substreams/pb/sf/substreams/v1"
)

func TestFindingD7(t *testing.T) {
	store := func(name string, init uint64) *pbsubstreams.Module {
		return &pbsubstreams.Module{Name: name, InitialBlock: init, Kind: &pbsubstreams.Module_KindStore_{KindStore: &pbsubstreams.Module_KindStore{}}}
	}
	out := &pbsubstreams.Module{Name: "out", InitialBlock: 25, Kind: &pbsubstreams.Module_KindMap_{KindMap: &pbsubstreams.Module_KindMap{}},
		Inputs: []*pbsubstreams.Module_Input{
			{Input: &pbsubstreams.Module_Input_Store_{Store: &pbsubstreams.Module_Input_Store{ModuleName: "s5"}}},
			{Input: &pbsubstreams.Module_Input_Store_{Store: &pbsubstreams.Module_Input_Store{ModuleName: "s22"}}},
		}}
	for _, mods := range [][]*pbsubstreams.Module{
		{store("s5", 5), store("s22", 22), out},
		{store("s22", 22), store("s5", 5), out},
	} {
		got, err := reprocStateRequired(25, "out", mods)
		if err != nil {
			t.Fatal(err)
		}
		if got == nil || *got != 5 {
			t.Fatalf("lowest store needing history below 25 is 5, got %v", *got)
		}
	}
}
