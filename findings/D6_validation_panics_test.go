package manifest

// Demonstration for finding D6 (property C17): a malformed request must be rejected with an error,
// never with a crash. Three shapes that protobuf decoding can deliver passed or crashed validation:
//  (a) a module without kind           -> ValidateModules panicked ("unsupported kind")
//  (b) a binary index out of range     -> accepted; later hashing indexed Binaries out of range (panic)
//  (c) an input whose oneof is not set -> accepted; later staging panics ("unsupported input type")

import (
	"testing"

	pbsubstreams "github.com/streamingfast/substreams/pb/sf/substreams/v1"
)

func mustNotPanic(t *testing.T, name string, f func() error) (err error) {
	defer func() {
		if r := recover(); r != nil {
			t.Fatalf("%s: panicked: %v", name, r)
		}
	}()
	return f()
}

func TestFindingD6(t *testing.T) {
	bin := &pbsubstreams.Binary{Type: "wasm/rust-v1", Content: []byte("x")}
	mapKind := &pbsubstreams.Module_KindMap_{KindMap: &pbsubstreams.Module_KindMap{OutputType: "proto:t"}}
	src := &pbsubstreams.Module_Input{Input: &pbsubstreams.Module_Input_Source_{Source: &pbsubstreams.Module_Input_Source{Type: "sf.test.Block"}}}

	// (a) no kind
	a := &pbsubstreams.Modules{Binaries: []*pbsubstreams.Binary{bin}, Modules: []*pbsubstreams.Module{{Name: "m", Inputs: []*pbsubstreams.Module_Input{src}}}}
	if err := mustNotPanic(t, "module without kind", func() error { return ValidateModules(a) }); err == nil {
		t.Fatalf("module without kind accepted")
	}
	// (b) binary index out of range: rejected by validation or, at the latest, by module hashing -- with an error
	b := &pbsubstreams.Modules{Binaries: []*pbsubstreams.Binary{bin}, Modules: []*pbsubstreams.Module{{Name: "m", Kind: mapKind, BinaryIndex: 7, Inputs: []*pbsubstreams.Module_Input{src}}}}
	if err := mustNotPanic(t, "binary index out of range", func() error { return ValidateModules(b) }); err == nil {
		graph, gerr := NewModuleGraph(b.Modules)
		if gerr != nil {
			t.Fatal(gerr)
		}
		herr := mustNotPanic(t, "hashing a validated module with binary index 7 of 1", func() error {
			_, herr := NewModuleHashes().HashModule(b, b.Modules[0], graph)
			return herr
		})
		if herr == nil {
			t.Fatalf("binary index out of range accepted by validation and by hashing")
		}
	}
	// (c) input with unset oneof
	c := &pbsubstreams.Modules{Binaries: []*pbsubstreams.Binary{bin}, Modules: []*pbsubstreams.Module{{Name: "m", Kind: mapKind, Inputs: []*pbsubstreams.Module_Input{{}}}}}
	if err := mustNotPanic(t, "input without oneof", func() error { return ValidateModules(c) }); err == nil {
		t.Fatalf("input with unset oneof accepted")
	}
}
