package store

// Demonstration for finding D2 (properties C03, C11): undoing a block must restore the content
// (and reported size) the store had before the block. A block that updates one key and then
// deletes another was only partly undone: the reversal stopped at the DELETE delta.

import (
	"testing"

	"github.com/streamingfast/dstore"
	pbsubstreams "github.com/streamingfast/substreams/pb/sf/substreams/v1"
	"go.uber.org/zap"
)

func TestFindingD2(t *testing.T) {
	cfg, err := NewConfig("s", 0, "hash", pbsubstreams.Module_KindStore_UPDATE_POLICY_SET, "string", dstore.NewMockStore(nil))
	if err != nil {
		t.Fatal(err)
	}
	s := cfg.NewFullKV(zap.NewNop())
	// block 1: a=1, g=2
	s.Set(1, "a", "1")
	s.Set(2, "g", "2")
	if err := s.Flush(); err != nil {
		t.Fatal(err)
	}
	s.Reset()
	before := map[string]string{}
	s.Iter(func(k string, v []byte) error { before[k] = string(v); return nil })
	sizeBefore := s.SizeBytes()
	// block 2: a=longer, delete g
	s.Set(1, "a", "longer")
	s.DeletePrefix(2, "g")
	if err := s.Flush(); err != nil {
		t.Fatal(err)
	}
	deltas := s.GetDeltas()
	s.ApplyDeltasReverse(deltas)
	after := map[string]string{}
	s.Iter(func(k string, v []byte) error { after[k] = string(v); return nil })
	if len(after) != len(before) {
		t.Fatalf("content after undo %v, before the block %v", after, before)
	}
	for k, v := range before {
		if after[k] != v {
			t.Fatalf("content after undo %v, before the block %v", after, before)
		}
	}
	if s.SizeBytes() != sizeBefore {
		t.Fatalf("size after undo %d, before the block %d", s.SizeBytes(), sizeBefore)
	}
}
