package pipeline

// Demonstration for finding D5 (property C03): the outputs of an undone block must be forgotten.
// A chain that flips back and forth over the same block (new b1, undo b1, new b1, undo b1) made the
// second undo hand both output lists to the undo handlers, which revert the store deltas twice.

import (
	"testing"

	"github.com/streamingfast/bstream"
	pbssinternal "github.com/streamingfast/substreams/pb/sf/substreams/intern/v2"
	"github.com/streamingfast/substreams"
	pbsubstreams "github.com/streamingfast/substreams/pb/sf/substreams/v1"
)

func TestFindingD5(t *testing.T) {
	var got [][]*pbssinternal.ModuleOutput
	p := &Pipeline{forkHandler: NewForkHandler(), respFunc: func(resp substreams.ResponseFromAnyTier) error { return nil }}
	p.forkHandler.registerUndoHandler(func(clock *pbsubstreams.Clock, outs []*pbssinternal.ModuleOutput) {
		got = append(got, append([]*pbssinternal.ModuleOutput{}, outs...))
	})
	clock := &pbsubstreams.Clock{Id: "b1", Number: 10}
	junction := bstream.NewBlockRef("b0", 9)
	cursor := &bstream.Cursor{Step: bstream.StepUndo, Block: bstream.NewBlockRef("b1", 10), LIB: bstream.NewBlockRef("a", 5), HeadBlock: bstream.NewBlockRef("b1", 10)}

	for round := 0; round < 2; round++ {
		// block b1 is executed: one store output is recorded as reversible
		p.forkHandler.addReversibleOutput(&pbssinternal.ModuleOutput{ModuleName: "store"}, "b1")
		// the chain reorganises: b1 is undone
		if err := p.handleStepUndo(clock, cursor, junction); err != nil {
			t.Fatal(err)
		}
		p.insideReorgUpTo = nil // a new block arrives in between (handleStepNew resets it)
	}
	if len(got) != 2 {
		t.Fatalf("expected two undo notifications, got %d", len(got))
	}
	for i, outs := range got {
		if len(outs) != 1 {
			t.Fatalf("undo #%d reverted %d output lists of block b1, expected 1 (its single application)", i+1, len(outs))
		}
	}
}
