package store

// Demonstration for finding D4 (property C09): replaying the recorded operation log of a block on a
// partial store must leave it in the same state as the original execution, including the list of
// deleted prefixes that is saved with the partial and replayed on the full store at squash time.

import (
	"reflect"
	"testing"

	"github.com/streamingfast/dstore"
	pbsubstreams "github.com/streamingfast/substreams/pb/sf/substreams/v1"
	"go.uber.org/zap"
)

func TestFindingD4(t *testing.T) {
	cfg, err := NewConfig("s", 0, "hash", pbsubstreams.Module_KindStore_UPDATE_POLICY_SET, "string", dstore.NewMockStore(nil))
	if err != nil {
		t.Fatal(err)
	}
	// original execution of the block by the module
	orig := cfg.NewPartialKV(0, zap.NewNop())
	orig.Set(1, "a1", "x")
	orig.DeletePrefix(2, "a")
	orig.Set(3, "b1", "y")
	if err := orig.Flush(); err != nil {
		t.Fatal(err)
	}
	log := orig.ReadOps()

	// replay of the cached log on a partial store in the same pre-block state
	replay := cfg.NewPartialKV(0, zap.NewNop())
	if err := replay.ApplyOps(log); err != nil {
		t.Fatal(err)
	}
	if !reflect.DeepEqual(orig.kv, replay.kv) {
		t.Fatalf("content differs: %v vs %v", orig.kv, replay.kv)
	}
	if len(orig.DeletedPrefixes) != len(replay.DeletedPrefixes) || (len(orig.DeletedPrefixes) > 0 && !reflect.DeepEqual(orig.DeletedPrefixes, replay.DeletedPrefixes)) {
		t.Fatalf("deleted prefixes differ: original %v, replay %v", orig.DeletedPrefixes, replay.DeletedPrefixes)
	}
}
