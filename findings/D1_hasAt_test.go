package store

// Demonstration for finding D1 (property C08): has_at must answer exactly whether get_at finds
// the key. A key created at ordinal 5 is found by GetAt(10) but HasAt(10) said false.

import (
	"testing"

	"github.com/streamingfast/dstore"
	pbsubstreams "github.com/streamingfast/substreams/pb/sf/substreams/v1"
	"go.uber.org/zap"
)

func TestFindingD1(t *testing.T) {
	cfg, err := NewConfig("s", 0, "hash", pbsubstreams.Module_KindStore_UPDATE_POLICY_SET, "string", dstore.NewMockStore(nil))
	if err != nil {
		t.Fatal(err)
	}
	s := cfg.NewFullKV(zap.NewNop())
	s.Set(5, "k", "v")
	if err := s.Flush(); err != nil {
		t.Fatal(err)
	}
	for _, ord := range []uint64{4, 5, 10} {
		_, found := s.GetAt(ord, "k")
		if has := s.HasAt(ord, "k"); has != found {
			t.Fatalf("ord %d: GetAt found=%v but HasAt=%v", ord, found, has)
		}
	}
	// delete then query: key deleted at ordinal 7
	s.DeletePrefix(7, "k")
	if err := s.Flush(); err != nil {
		t.Fatal(err)
	}
	for _, ord := range []uint64{4, 6, 7, 10} {
		_, found := s.GetAt(ord, "k")
		if has := s.HasAt(ord, "k"); has != found {
			t.Fatalf("after delete, ord %d: GetAt found=%v but HasAt=%v", ord, found, has)
		}
	}
}
