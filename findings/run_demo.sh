#!/bin/bash
# run_demo.sh <finding test file> <package dir relative to /repo> <TestName>
# Injects the demonstration test with -overlay (nothing is written into /repo) and runs it.
set -e
f=$(readlink -f "$1"); pkg="$2"; name="$3"
export GOFLAGS=-mod=mod GOPROXY=off GOSUMDB=off GOTOOLCHAIN=local
d=$(mktemp -d); trap 'rm -rf $d' EXIT
printf '{"Replace":{"/repo/%s/zz_finding_test.go":"%s"}}' "$pkg" "$f" > $d/ov.json
cd /repo && go test -overlay $d/ov.json -vet=off -count=1 -timeout 120s -run "^$name\$" ./$pkg
