package store

// Demonstration for finding D3 (property C11): merging a partial store into a full store with
// policy max (or min) and value type bigdecimal accounted an existing key as a new one.

import (
	"testing"

	"github.com/streamingfast/dstore"
	pbsubstreams "github.com/streamingfast/substreams/pb/sf/substreams/v1"
	"go.uber.org/zap"
)

func TestFindingD3(t *testing.T) {
	for _, policy := range []pbsubstreams.Module_KindStore_UpdatePolicy{pbsubstreams.Module_KindStore_UPDATE_POLICY_MAX, pbsubstreams.Module_KindStore_UPDATE_POLICY_MIN} {
		cfg, err := NewConfig("s", 0, "hash", policy, "bigdecimal", dstore.NewMockStore(nil))
		if err != nil {
			t.Fatal(err)
		}
		full := cfg.NewFullKV(zap.NewNop())
		full.kv["k"] = []byte("1")
		full.totalSizeBytes = 2
		part := cfg.NewPartialKV(10, zap.NewNop())
		part.kv["k"] = []byte("2")
		part.totalSizeBytes = 2
		if err := full.Merge(part); err != nil {
			t.Fatal(err)
		}
		real := uint64(0)
		full.Iter(func(k string, v []byte) error { real += uint64(len(k) + len(v)); return nil })
		if full.SizeBytes() != real {
			t.Fatalf("policy %s: store holds %d bytes but reports %d", policy, real, full.SizeBytes())
		}
	}
}
